#!/bin/bash
# MANIFEST.setup_cmd: offline warm-up build of every harness test package (fills GOCACHE only).
set -u
cd "$(dirname "$0")/harness"
export GOFLAGS=-mod=mod GOPROXY=off GOSUMDB=off GOTOOLCHAIN=local
mkdir -p ../.build/setup
rc=0
for d in c[0-9][0-9]; do
  [ -f "$d/meta.json" ] || continue
  ls "$d"/*_test.go >/dev/null 2>&1 || continue
  go test -c -tags verif -vet=off -o ../.build/setup/$d.test ./$d || rc=1
done
rm -rf ../.build/setup
exit $rc
