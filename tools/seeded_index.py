#!/usr/bin/env python3
"""Regenerates seeded/INDEX.md from seeded/*/meta.json and seeded/notes.json."""
import json, os
ROOT = os.path.dirname(os.path.dirname(os.path.abspath(__file__)))
S = os.path.join(ROOT, "seeded")
notes = json.load(open(os.path.join(S, "notes.json")))
rows = []
for d in sorted(os.listdir(S)):
    mp = os.path.join(S, d, "meta.json")
    if not os.path.exists(mp):
        continue
    m = json.load(open(mp))
    c = m["confirmed"]
    cell = lambda x: str(x or "").replace("|", "\\|").replace("\n", " ")
    rows.append("| %s | %s | %s | %s | %s | %s/%s | %s | %s |" % (d, m["property"], cell(m["summary"])[:400], cell(m["needs"])[:400], ", ".join(next((v["detected_by"] for k, v in m.items() if k.startswith("after_repair_")), c["detected_by"])) or "MISSED",
                c["demo_without_patch"], c["demo_with_patch"], cell(c["existing_suite"])[:12], cell(notes.get(d, ""))))
out = ["# Seeded changes (independently produced breaking changes)", "",
       "Each directory holds `patch.diff` (applies to /repo at the recorded base commit), the demonstration test (`*_test.go.txt`, to be placed in `demo_package`) and `meta.json` (what it breaks, what it needs to manifest, what was run to confirm it). All were produced by sub-agents that saw only the property text and a scratch worktree of /repo, never /verif; each was then confirmed by `tools/seeded.py` (demonstration passes without the patch and fails with it, the tree builds, the existing tests still pass) and the checks were run against it. `<ID>` = round 1, `<ID>r2` = round 2 (asked for a different mechanism than round 1). The last column says where a check first missed the change and what was strengthened; the `detected by` column is the state after strengthening.", "",
       "| dir | property | change | needs | detected by | demo without/with | suite | note |", "|---|---|---|---|---|---|---|---|"] + rows
open(os.path.join(S, "INDEX.md"), "w").write("\n".join(out) + "\n")
print(len(rows), "entries")
