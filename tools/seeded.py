#!/usr/bin/env python3
"""Confirms an independently produced breaking change and runs the checks against it.

  tools/seeded.py <ID> [--src /tmp/seeded-out/<ID>] [--wt /tmp/wt-<ID>] [--checks C01,C06] [--tier quick|thorough] [--keep]

Steps (all in the scratch worktree, never in /repo): clean the worktree, confirm the demonstration
PASSES without the patch, apply the patch, confirm it builds, the demonstration FAILS, the existing
tests of the module still pass; then run the given checks with VERIF_REPO=<worktree>. Results are written
to /verif/seeded/<name>/ (patch.diff, demonstration, meta.json).
"""
import json, os, re, shutil, subprocess, sys, time

ROOT = os.path.dirname(os.path.dirname(os.path.abspath(__file__)))
ENV = dict(os.environ, GOFLAGS="-mod=mod", GOPROXY="off", GOSUMDB="off", GOTOOLCHAIN="local")


def sh(cmd, cwd, timeout=1800, env=None):
    r = subprocess.run(cmd, cwd=cwd, shell=True, env=env or ENV, stdout=subprocess.PIPE, stderr=subprocess.STDOUT, text=True, errors="replace", timeout=timeout)
    return r.returncode, r.stdout


def main():
    a = sys.argv[1:]
    pid = a[0]
    opt = {"--src": "/tmp/seeded-out/" + pid, "--wt": "/tmp/wt-" + pid, "--checks": pid, "--tier": "quick", "--name": pid}
    i = 1
    keep = False
    while i < len(a):
        if a[i] == "--keep":
            keep = True; i += 1
        else:
            opt[a[i]] = a[i + 1]; i += 2
    src, wt = opt["--src"], opt["--wt"]
    meta = json.load(open(os.path.join(src, "meta.json")))
    demo_pkg = meta["demo_package"].strip("./")
    demo_files = [f for f in os.listdir(src) if f.endswith("_test.go")]
    log = {}
    # 0. clean worktree at /repo's HEAD
    head = subprocess.run("git -C /repo rev-parse HEAD", shell=True, stdout=subprocess.PIPE, text=True).stdout.strip()
    sh("git checkout -q --detach %s && git reset -q --hard %s && git clean -fdq" % (head, head), wt)
    for f in demo_files:
        shutil.copy(os.path.join(src, f), os.path.join(wt, demo_pkg, f))
    tags = "-tags verif" if any("go:build verif" in open(os.path.join(src, f)).read() for f in demo_files) else ""
    is_adapter = demo_pkg.startswith("pkg/adapters/")
    moddir = os.path.join(wt, demo_pkg) if is_adapter else wt
    pkgarg = "." if is_adapter else "./" + demo_pkg
    race = "-race" if "-race" in str(meta.get("demo_run", "")) else ""  # demonstrations that only the race detector sees
    demo_cmd = "go test %s %s -count=1 -run 'Seeded|seeded|ZZ|Demo' %s" % (tags, race, pkgarg)
    rc0, out0 = sh(demo_cmd, moddir)
    log["demo_without_patch"] = "PASS" if rc0 == 0 else "FAIL"
    # 1. apply
    rc, out = sh("git apply --check %s && git apply %s" % (os.path.join(src, "patch.diff"), os.path.join(src, "patch.diff")), wt)
    log["patch_applies"] = rc == 0
    if rc != 0:
        print(out)
    rc, out = sh("go build ./... && go vet %s ./... >/dev/null 2>&1; go build -tags verif ./..." % tags, moddir if is_adapter else wt)
    log["builds"] = rc == 0
    rc1, out1 = sh(demo_cmd, moddir)
    log["demo_with_patch"] = "PASS" if rc1 == 0 else "FAIL"
    m = re.findall(r"^\s+\S+_test\.go:\d+: (.*)$", out1, re.M)
    log["demo_failure"] = (m[0] if m else "")[:300]
    # 2. existing suite (demo moved aside)
    for f in demo_files:
        os.remove(os.path.join(wt, demo_pkg, f))
    t0 = time.time()
    if is_adapter:
        rcs, outs = sh("go test -count=1 ./...", moddir)
    else:
        # tests that already fail on a clean scratch checkout at this path (one map-print-order test of ext/datasource
        # depends on the binary layout, i.e. on the checkout directory; it passes in /repo) are not held against the patch
        known = set(json.load(open("/tmp/seeded-out/clean_fail.json"))) if os.path.exists("/tmp/seeded-out/clean_fail.json") else set()
        rcs, outj = sh("go test -json -vet=off -count=1 ./... 2>/dev/null", wt)
        failed = set()
        for l in outj.splitlines():
            try:
                e = json.loads(l)
            except ValueError:
                continue
            if e.get("Action") == "fail" and e.get("Test"):
                failed.add(e["Package"] + "::" + e["Test"])
        failed -= known
        if failed:  # one time-sensitive integration test flakes on a busy machine: a failure counts only if it repeats alone
            again = set()
            for ft in sorted(failed):
                pkg, tst = ft.split("::")
                rc2, _ = sh("go test -vet=off -count=1 -run '^%s$' %s" % (tst.split("/")[0], pkg), wt)
                if rc2 != 0:
                    again.add(ft)
            failed = again
        rcs, outs = (0, "") if not failed else (1, " ".join(sorted(failed)))
    log["existing_suite"] = "PASS" if rcs == 0 else "FAIL: " + outs[-600:]
    log["existing_suite_cmd"] = "go test -count=1 ./... (in %s, %.0f s)" % ("the adapter module" if is_adapter else "the root module", time.time() - t0)
    # 3. the checks against the patched worktree
    results = {}
    env = dict(ENV, VERIF_REPO=wt)
    for cid in opt["--checks"].split(","):
        for tier in ([opt["--tier"]] if opt["--tier"] == "thorough" else ["quick", "thorough"]):
            rc, out = sh("./check %s --tier %s" % (cid, tier), ROOT, timeout=3600, env=env)
            first = [l for l in out.splitlines() if l.startswith("VIOLATION") or l.startswith("  test=") or l.startswith("  adapter=")]
            results["%s/%s" % (cid, tier)] = {"exit": rc, "report": " ".join(first[:2])[:500]}
            if rc == 1:
                break
    log["checks"] = results
    detected = [k for k, v in results.items() if v["exit"] == 1]
    log["detected_by"] = detected
    out_dir = os.path.join(ROOT, "seeded", opt["--name"])
    os.makedirs(out_dir, exist_ok=True)
    shutil.copy(os.path.join(src, "patch.diff"), os.path.join(out_dir, "patch.diff"))
    for f in demo_files:
        shutil.copy(os.path.join(src, f), os.path.join(out_dir, f.replace("_test.go", "_test.go.txt")))
    meta_out = {"property": meta.get("property", pid), "summary": meta.get("summary"), "needs": meta.get("needs"), "demo_package": demo_pkg,
                "demo_run": demo_cmd + " (file restored as " + ", ".join(demo_files) + " in " + demo_pkg + ")", "origin": "independent sub-agent that saw only the property text and a scratch worktree",
                "confirmed": log, "base_commit": head}
    json.dump(meta_out, open(os.path.join(out_dir, "meta.json"), "w"), indent=1)
    ok = log["patch_applies"] and log["builds"] and log["demo_without_patch"] == "PASS" and log["demo_with_patch"] == "FAIL" and log["existing_suite"] == "PASS"
    print("%s: valid=%s demo(without/with)=%s/%s suite=%s detected_by=%s" % (opt["--name"], ok, log["demo_without_patch"], log["demo_with_patch"], log["existing_suite"][:40], detected))
    for k, v in results.items():
        print("   %s exit=%s %s" % (k, v["exit"], v["report"][:300]))
    sh("git reset -q --hard && git clean -fdq", wt)
    shutil.rmtree(os.path.join(ROOT, "replays"), ignore_errors=True)


if __name__ == "__main__":
    main()
