#!/usr/bin/env python3
"""Regenerates /verif/MANIFEST.json from harness/<id>/meta.json (one per property)."""
import json, os, subprocess
ROOT = os.path.dirname(os.path.dirname(os.path.abspath(__file__)))
props = [json.loads(l) for l in open(os.path.join(ROOT, "properties.jsonl"))]
checks, na = [], []
hooks = subprocess.run(["git", "-C", "/repo", "log", "--format=%h %s", "--grep=^verif hook"], stdout=subprocess.PIPE, text=True).stdout.strip().splitlines()
for p in props:
    pid = p["id"]
    mp = os.path.join(ROOT, "harness", pid.lower(), "meta.json")
    meta = json.load(open(mp)) if os.path.exists(mp) else None
    if not meta or not meta.get("claimed", True):
        na.append({"property_id": pid, "reason": (meta or {}).get("not_applicable_reason", "check not registered yet (under construction; see DESIGN.md section 4)")})
        continue
    checks.append({
        "property_id": pid,
        "quick_cmd": "./check %s --tier quick" % pid,
        "thorough_cmd": "./check %s --tier thorough" % pid,
        "evidence_file": "/verif/evidence/%s.json" % pid,
        "replay_cmd_template": "./check %s --replay {path}" % pid,
        "engine": "rapid-harness",
        "level_claimed": {"category": meta.get("level", "exploration"), "text": meta["level_text"], "design_ref": "DESIGN.md section 4, " + pid},
        "level_note": meta["level_note"],
        "technique": meta["technique"],
    })
man = {
    "version": 1,
    "setup_cmd": "./setup.sh",
    "hooks": {
        "guard": "verif",
        "enable": "go build tag: every check builds /repo (through the harness module's replace directive) with -tags verif",
        "baseline_off_cmd": "/verif/baseline_off.sh",
        "source_commits": [h.split()[0] for h in hooks],
        "add_only": True,
    },
    "engines": [
        {"name": "rapid-harness", "path": "/verif/harness", "serves_properties": [c["property_id"] for c in checks],
         "kind_free_text": "Go module (pgregory.net/rapid v1.3.0, replace sentinel-golang => /repo, build tag verif): virtual clock, reference models, cooperative scheduler over yield hooks, evidence collector; driven by /verif/check (one process per test and shard)"},
    ],
    "checks": checks,
    "not_applicable": na,
    "notes": "All checks are generated-input searches against explicit oracles (see DESIGN.md). Exit 0 held / 1 VIOLATION / 2 infrastructure. known_findings.jsonl lists repaired (fixed:) and recorded (status known) defects. /repo commit 3cbeb28 (made by the task driver at the end of the design round) only carries go.mod go-directive lines written by go tooling; it is neither a hook nor a fix (DESIGN 8.2).",
}
json.dump(man, open(os.path.join(ROOT, "MANIFEST.json"), "w"), indent=1)
print("checks:", [c["property_id"] for c in checks], "n/a:", [x["property_id"] for x in na])
