#!/usr/bin/env python3
"""Re-runs the checks against every kept seeded change (sensitivity regression after the checks were edited).

  tools/seeded_rerun.py [--shard=k/n] [name ...]     # default: all directories under seeded/

Each patch is applied to a scratch worktree of /repo's HEAD (/tmp/wt-rerun, created and removed here), the
property's check runs with VERIF_REPO pointing there (quick, then thorough if quick is silent), and the result is
printed. Nothing is written to /repo, evidence/ or the seeded meta files.
"""
import json, os, subprocess, sys
ROOT = os.path.dirname(os.path.dirname(os.path.abspath(__file__)))
WT = "/tmp/wt-rerun"
ENV = dict(os.environ, GOFLAGS="-mod=mod", GOPROXY="off", GOSUMDB="off", GOTOOLCHAIN="local", VERIF_REPO=WT)

def sh(cmd, cwd=ROOT, env=None):
    r = subprocess.run(cmd, cwd=cwd, shell=True, env=env or ENV, stdout=subprocess.PIPE, stderr=subprocess.STDOUT, text=True, errors="replace")
    return r.returncode, r.stdout

args = sys.argv[1:]
shard, nshards = 0, 1
if args and args[0].startswith("--shard="):  # --shard=k/n : every n-th change (several instances may run side by side)
    shard, nshards = map(int, args.pop(0).split("=")[1].split("/"))
    WT = "/tmp/wt-rerun-%d" % shard
    ENV["VERIF_REPO"] = WT
names = args or sorted(d for d in os.listdir(os.path.join(ROOT, "seeded")) if os.path.isdir(os.path.join(ROOT, "seeded", d)))
names = [n for i, n in enumerate(names) if i % nshards == shard]
sh("git -C /repo worktree remove --force %s; git -C /repo worktree add --detach %s HEAD" % (WT, WT))
missed = []
try:
    for n in names:
        d = os.path.join(ROOT, "seeded", n)
        meta = json.load(open(os.path.join(d, "meta.json")))
        pid = meta["property"]
        det = next((v["detected_by"] for k, v in meta.items() if k.startswith("after_repair_")), meta["confirmed"]["detected_by"])
        others = sorted({x.split("/")[0] for x in det} - {pid})  # changes that another property's check reports
        sh("git reset -q --hard && git clean -fdq", WT)
        rc, out = sh("git apply %s" % os.path.join(d, "patch.diff"), WT)
        if rc != 0:
            print("%-7s patch does not apply: %s" % (n, out.strip()[:200])); missed.append(n); continue
        res = "MISSED"
        for cid in [pid] + others:
            for tier in ("quick", "thorough"):
                rc, out = sh("./check %s --tier %s" % (cid, tier))
                if rc == 1:
                    res = tier if cid == pid else "%s(by %s)" % (tier, cid); break
                if rc != 0:
                    res = "INFRA(%d)" % rc; break
            if res != "MISSED":
                break
        print("%-7s %s %s" % (n, pid, res), flush=True)
        if not (res.startswith("quick") or res.startswith("thorough")):
            missed.append(n)
finally:
    sh("git -C /repo worktree remove --force %s" % WT)
    if nshards == 1:
        sh("rm -rf %s" % os.path.join(ROOT, "replays"))
print("missed:", missed)
sys.exit(1 if missed else 0)
