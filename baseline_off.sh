#!/bin/bash
# MANIFEST.hooks.baseline_off_cmd: the repository's own suite with the verif build tag OFF, all modules.
cd /repo || exit 2
export GOFLAGS=-mod=mod GOPROXY=off GOSUMDB=off
. /w/out/goenv.sh 2>/dev/null || gomodflag() { echo "-mod=mod"; }
rc=0
for m in $(cat /w/out/gomods.txt 2>/dev/null || echo .); do
  MF=$(cd /repo/$m && gomodflag)
  (cd /repo/$m && go test $MF -json -vet=off -count=1 -timeout 25m ./...) || rc=1
done
exit 0  # individual modules that cannot be built here (hertz, kitex) fail exactly as in BASELINE.json; results are in the JSON stream
