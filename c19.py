#!/usr/bin/env python3
"""C19 driver: runs the generated-request drivers of every adapter module inside that module
(go test -modfile/-overlay: nothing is written into /repo) and merges their evidence.

  c19.py C19 --tier quick|thorough --seed N [--replay file]
"""
import glob, hashlib, json, os, re, shutil, subprocess, sys, time
from concurrent.futures import ThreadPoolExecutor

ROOT = os.path.dirname(os.path.abspath(__file__))
ADIR = os.path.join(ROOT, "harness", "adapters")
REPO = os.path.abspath(os.environ.get("VERIF_REPO") or "/repo")
REPO_ADAPTERS = os.path.join(REPO, "pkg", "adapters")
BUILD = os.path.join(ROOT, ".build", "C19")

# adapters that cannot be compiled in this sandbox against their real frameworks (see DESIGN.md, C19)
CANNOT_BUILD = {"hertz": "bytedance/sonic in its pinned dependency graph does not build with the installed Go toolchains",
                "kitex": "choleraehyq/pid / sonic in its pinned dependency graph do not build with the installed Go toolchains"}


def discover():
    """Every function in pkg/adapters/** (non-test, non-example files) that calls sentinel.Entry / api.Entry."""
    found = {}
    for path in sorted(glob.glob(os.path.join(REPO_ADAPTERS, "*", "*.go"))):
        if path.endswith("_test.go") or "example" in os.path.basename(path):
            continue
        adapter = os.path.basename(os.path.dirname(path))
        src = open(path).read()
        cur = None
        for line in src.splitlines():
            m = re.match(r"func (?:\([^)]*\) )?([A-Za-z0-9_]+)\(", line)
            if m:
                cur = m.group(1)
            if re.search(r"\b(sentinel|api)\.Entry\(", line) and cur:
                found.setdefault(adapter, set()).add(cur)
    return {a: sorted(v) for a, v in found.items()}


def run_adapter(job):
    a, tier, seed, checks = job["adapter"], job["tier"], job["seed"], job["checks"]
    bdir = os.path.join(BUILD, "%s-%d" % (a, os.getpid()))
    shutil.rmtree(bdir, ignore_errors=True)
    os.makedirs(bdir)
    src = os.path.join(REPO_ADAPTERS, a)
    mod = open(os.path.join(src, "go.mod")).read()
    mod = mod.replace("=> ../../../", "=> " + REPO)
    mod += "\nrequire pgregory.net/rapid v1.3.0\n"
    open(os.path.join(bdir, "go.mod"), "w").write(mod)
    summ = open(os.path.join(src, "go.sum")).read()
    summ += "".join(l for l in open(os.path.join(ROOT, "harness", "go.sum")) if "pgregory.net/rapid" in l)
    if "=> " + REPO in mod:
        summ += open(os.path.join(REPO, "go.sum")).read()
    open(os.path.join(bdir, "go.sum"), "w").write(summ)
    pkg = job["package"]
    common = open(os.path.join(ADIR, "common", "common.go.tmpl")).read().replace("PKGNAME", pkg)
    extra = job.get("exits_before", [])
    if extra:
        common = common.replace("var vExitsBefore = map[string]bool{}", "var vExitsBefore = map[string]bool{%s}" % ", ".join('"%s": true' % x for x in extra))
    open(os.path.join(bdir, "common_test.go"), "w").write(common)
    overlay = {"Replace": {os.path.join(src, "zz_verif_common_test.go"): os.path.join(bdir, "common_test.go")}}
    for f in sorted(glob.glob(os.path.join(ADIR, a, "*.go"))):
        overlay["Replace"][os.path.join(src, "zz_" + os.path.basename(f))] = f
    if job.get("mask_own_tests"):
        for f in glob.glob(os.path.join(src, "*_test.go")):
            overlay["Replace"][f] = ""
    open(os.path.join(bdir, "overlay.json"), "w").write(json.dumps(overlay))
    env = dict(os.environ)
    env.update({"GOFLAGS": "-mod=mod", "GOPROXY": "off", "GOSUMDB": "off", "GOTOOLCHAIN": "local"})
    h = int.from_bytes(hashlib.sha256(a.encode()).digest()[:6], "big")
    rseed = 1 + ((seed * 2654435761 + h) % (2 ** 62))
    cmd = ["go", "test", "-vet=off", "-count=1", "-modfile=" + os.path.join(bdir, "go.mod"), "-overlay=" + os.path.join(bdir, "overlay.json"),
           "-run", "^TestVerif", "-v", "-timeout", "1500s", "."]
    args = ["-rapid.checks=%d" % checks, "-rapid.seed=%d" % rseed]
    if job.get("replay"):
        args = ["-rapid.failfile=" + job["replay"]]
    t0 = time.time()
    try:
        r = subprocess.run(cmd + args, cwd=src, env=env, stdout=subprocess.PIPE, stderr=subprocess.STDOUT, text=True, errors="replace", timeout=1700)
        job["rc"], job["out"] = r.returncode, r.stdout
    except subprocess.TimeoutExpired as e:
        job["rc"], job["out"] = -999, str(e.stdout or "")
    job["wall"] = time.time() - t0
    # rapid writes fail files under the package's testdata/: move them out of /repo
    for f in glob.glob(os.path.join(src, "testdata", "rapid", "TestVerif*", "*.fail")):
        job.setdefault("fails", []).append(shutil.move(f, os.path.join(bdir, os.path.basename(f))))
    for d in glob.glob(os.path.join(src, "testdata", "rapid", "TestVerif*")):
        shutil.rmtree(d, ignore_errors=True)
    for d in (os.path.join(src, "testdata", "rapid"), os.path.join(src, "testdata")):
        try:
            os.rmdir(d)
        except OSError:
            pass
    job["bdir"] = bdir
    return job


def main():
    args = sys.argv[1:]
    pid, tier, seed, replay = "C19", "quick", 1, None
    i = 1
    while i < len(args):
        if args[i] == "--tier":
            tier = args[i + 1]; i += 2
        elif args[i] == "--seed":
            seed = int(args[i + 1]); i += 2
        elif args[i] == "--replay":
            replay = os.path.abspath(args[i + 1]); i += 2
        else:
            i += 1
    t_start = time.time()
    plan = json.load(open(os.path.join(ADIR, "plan.json")))
    meta = json.load(open(os.path.join(ROOT, "harness", "c19", "meta.json")))
    found = discover()
    driven = {a: set(p["entry_points"]) for a, p in plan["adapters"].items()}
    uncovered, fatal = [], []
    for a, fns in found.items():
        for fn in fns:
            if fn in driven.get(a, set()):
                continue
            if a in CANNOT_BUILD:
                uncovered.append({"adapter": a, "function": fn, "reason": CANNOT_BUILD[a]})
            elif fn in plan.get("undriven_ok", {}).get(a, {}):
                uncovered.append({"adapter": a, "function": fn, "reason": plan["undriven_ok"][a][fn]})
            else:
                fatal.append("%s.%s calls sentinel.Entry but no driver covers it" % (a, fn))
    jobs = []
    for a, p in plan["adapters"].items():
        if replay and not os.path.basename(replay).startswith("C19-" + a + "-"):
            continue
        checks = p.get("checks", {}).get(tier, 600 if tier == "quick" else 8000)
        jobs.append({"adapter": a, "tier": tier, "seed": seed, "checks": checks, "package": p["package"], "exits_before": p.get("exits_before", []),
                     "mask_own_tests": p.get("mask_own_tests", True), "replay": replay})
    with ThreadPoolExecutor(max_workers=8) as ex:
        done = list(ex.map(run_adapter, jobs))
    rdir = os.path.join(ROOT, "replays", pid)
    violations, infra = [], list(fatal)
    evs = []
    for j in done:
        out = j["out"]
        for line in out.splitlines():
            if line.startswith("EVID "):
                try:
                    evs.append(json.loads(line[5:]))
                except ValueError:
                    pass
        if j["rc"] == 0:
            continue
        if "[rapid] failed" in out or "[rapid] panic" in out or "--- FAIL" in out:
            os.makedirs(rdir, exist_ok=True)
            if j.get("fails") and not replay:
                dst = os.path.join(rdir, "C19-%s-%s" % (j["adapter"], os.path.basename(j["fails"][0])))
                shutil.copy(j["fails"][0], dst)
            else:
                dst = replay or os.path.join(rdir, "C19-%s-%s.log" % (j["adapter"], time.strftime("%Y%m%dT%H%M%SZ", time.gmtime())))
            if not replay:
                open(dst + (".log" if not dst.endswith(".log") else ""), "w").write(out)
            m = re.search(r"\[rapid\] (failed after \d+ tests: .*|panic after \d+ tests: .*)", out)
            violations.append((j, dst, m.group(1)[:400] if m else ""))
        else:
            tail = "\n".join(out.splitlines()[-15:])
            infra.append("%s: build or run failure (rc %s):\n%s" % (j["adapter"], j["rc"], tail))
    for j in done:
        shutil.rmtree(j.get("bdir", ""), ignore_errors=True)
    hashes = set()
    classes = {}
    for e in evs:
        hashes.update(e.get("hashes") or [])
        for k, v in (e.get("classes") or {}).items():
            classes[k] = classes.get(k, 0) + v
    if not replay:
        evdir = os.path.join(ROOT, "evidence") if not os.environ.get("VERIF_REPO") else os.path.join(ROOT, ".build", "evidence-other-tree")  # committed evidence is about /repo only
        evidence = {
            "property_id": pid, "tier": tier, "seed": seed, "level": "exploration",
            "coverage": {
                "evaluations": sum(e["cases"] for e in evs), "distinct_nontrivial": len(hashes), "rule": meta["rule"],
                "samples": [{"entry_point": e["entry_point"], "requests": s} for e in evs for s in (e.get("sample") or [])[:1]][:8],
                "class_histogram": classes,
                "counters": {"requests": sum(e["requests"] for e in evs), "skipped_window_rollover": sum(e["skipped_window_rollover"] for e in evs)},
                "entry_points_driven": sorted(e["entry_point"] for e in evs),
                "entry_points_discovered": found,
                "uncovered_entry_points": uncovered,
            },
            "assumptions": meta.get("assumptions", []), "wall_s": round(time.time() - t_start, 2), "violations": len(violations),
        }
        if infra:
            evidence["coverage"]["infrastructure_problems"] = infra
        os.makedirs(evdir, exist_ok=True)
        tmp = os.path.join(evdir, pid + ".json.tmp")
        json.dump(evidence, open(tmp, "w"), indent=1, ensure_ascii=False)
        os.replace(tmp, os.path.join(evdir, pid + ".json"))
    if violations:
        for j, dst, msg in violations:
            print("VIOLATION property=%s replay=%s" % (pid, dst))
            print("  adapter=%s %s" % (j["adapter"], msg))
        sys.exit(1)
    if infra:
        for x in infra:
            print("INFRA property=%s %s" % (pid, x))
        sys.exit(2)
    print("OK property=%s tier=%s seed=%d evaluations=%d distinct_nontrivial=%d entry_points=%d uncovered=%d wall=%.1fs" % (
        pid, tier, seed, sum(e["cases"] for e in evs), len(hashes), len(evs), len(uncovered), time.time() - t_start))
    sys.exit(0)


if __name__ == "__main__":
    main()
