// C07: system protection gates inbound traffic only, by the configured predicate.
package c07

import (
	"errors"
	"fmt"
	"testing"

	sentinel "github.com/alibaba/sentinel-golang/api"
	"github.com/alibaba/sentinel-golang/core/base"
	"github.com/alibaba/sentinel-golang/core/flow"
	"github.com/alibaba/sentinel-golang/core/stat"
	"github.com/alibaba/sentinel-golang/core/system"
	"github.com/alibaba/sentinel-golang/core/system_metric"
	"pgregory.net/rapid"

	"verif/harness/hx"
	"verif/harness/model"
)

func TestMain(m *testing.M) { hx.Main(m, "C07") }

func TestSystemPredicate(t *testing.T) {
	hx.Check(t, hx.N{Quick: 36000, Thorough: 300000}, func(t *rapid.T, c *hx.Case) {
		hx.Reset(hx.Epoch + uint64(rapid.IntRange(0, 999).Draw(t, "t0")))
		drawTrig := func(mt system.MetricType) float64 {
			switch mt {
			case system.InboundQPS:
				return rapid.SampledFrom([]float64{0, 1, 2, 2.5, 4, 6}).Draw(t, "trig")
			case system.Concurrency:
				return rapid.SampledFrom([]float64{0, 1, 2, 2.5, 3, 4}).Draw(t, "trig")
			case system.AvgRT:
				return rapid.SampledFrom([]float64{0, 1, 5, 20, 100, 99.5}).Draw(t, "trig")
			case system.Load:
				return rapid.SampledFrom([]float64{0, 1, 2.5}).Draw(t, "trig")
			}
			return rapid.SampledFrom([]float64{0, 0.5, 0.9, 1}).Draw(t, "trig")
		}
		drawRule := func(id int) *system.Rule {
			mt := system.MetricType(rapid.IntRange(0, 4).Draw(t, "metric"))
			st := system.NoAdaptive
			if rapid.Bool().Draw(t, "bbr") {
				st = system.BBR
			}
			return &system.Rule{ID: fmt.Sprint(id), MetricType: mt, TriggerCount: drawTrig(mt), Strategy: st}
		}
		var rules []*system.Rule
		load := func(why string) { // the module gets private copies: the reference keeps its own
			cp := make([]*system.Rule, len(rules))
			for i, r := range rules {
				x := *r
				cp[i] = &x
				c.Op("%s: rule %s %v trigger=%v strategy=%v", why, r.ID, r.MetricType, r.TriggerCount, r.Strategy)
			}
			if _, err := system.LoadRules(cp); err != nil {
				t.Fatalf("LoadRules: %v", err)
			}
			got := system.GetRules()
			if len(got) != len(rules) {
				t.Fatalf("%d valid rules loaded, module reports %d", len(rules), len(got))
			}
			// what a getter hands out belongs to the caller: editing it changes neither what is reported next nor what is enforced
			for i := range got {
				got[i].TriggerCount += 1000
				got[i].Strategy = system.NoAdaptive
			}
			again := map[string]system.Rule{}
			for _, r := range system.GetRules() {
				again[r.ID] = r
			}
			for _, r := range rules {
				if g, ok := again[r.ID]; !ok || g.MetricType != r.MetricType || g.TriggerCount != r.TriggerCount || g.Strategy != r.Strategy {
					t.Fatalf("%s: after a caller edited the rules an earlier GetRules call had returned, GetRules reports %+v for the loaded rule %+v", why, g, *r)
				}
			}
		}
		nr := rapid.IntRange(0, 3).Draw(t, "nrules")
		for i := 0; i < nr; i++ {
			rules = append(rules, drawRule(i))
		}
		load("load")
		if rapid.IntRange(0, 299).Draw(t, "manyResources") == 137 { // (a middle value: rare)
			// a process that has already seen about base.DefaultMaxResourceAmount resource names (the library only warns beyond
			// that amount): inbound traffic on further names still counts for the system rules
			n := int(base.DefaultMaxResourceAmount) + rapid.IntRange(-2, 2).Draw(t, "around")
			for i := 0; i < n; i++ {
				stat.GetOrCreateResourceNode(fmt.Sprintf("bulk-%d", i), base.ResTypeCommon)
			}
			c.Op("%d other resources already have statistic nodes", n)
			c.Class("about-10000-resources-before")
		}
		if rapid.IntRange(0, 2).Draw(t, "pacingFlowRule") == 0 {
			// another module on the traffic's resources: pacing rules that queue requests (never reject: the limit is an hour)
			pt := float64(rapid.SampledFrom([]int{3, 5, 20, 100}).Draw(t, "paceT")) // (never below the largest batch: a pacing rule rejects a batch above its threshold)
			if _, err := flow.LoadRules([]*flow.Rule{{Resource: "a", ControlBehavior: flow.Throttling, Threshold: pt, MaxQueueingTimeMs: 3600000}, {Resource: "b", ControlBehavior: flow.Throttling, Threshold: pt, MaxQueueingTimeMs: 3600000}}); err != nil {
				t.Fatalf("flow rules: %v", err)
			}
			hx.C.Advance = true
			defer func() { hx.C.Advance = false }()
			c.Class("pacing-flow-rules-on-the-resources")
		}
		reloaded := false
		sysLoad, cpu := -1.0, -1.0
		var evs model.Events // inbound aggregate only, built by the reference
		type lv struct {
			id      int
			e       *base.SentinelEntry
			start   uint64
			inbound bool
			batch   uint32
		}
		var lives []*lv
		defer func() {
			for _, l := range lives {
				l.e.Exit()
			}
		}()
		sawInBlock, sawInPass, sawOut, bbrDecides := false, false, false, false
		next := 0
		n := rapid.IntRange(1, 50).Draw(t, "n")
		for i := 0; i < n; i++ {
			now := hx.C.Ms()
			switch op := rapid.IntRange(0, 6).Draw(t, "op"); {
			case op == 6: // reload: the list changes in one field of one rule, or by one rule; the latest list is what gates
				switch k := rapid.IntRange(0, 4).Draw(t, "edit"); {
				case k == 0 && len(rules) > 0: // strategy only
					r := rules[rapid.IntRange(0, len(rules)-1).Draw(t, "which")]
					if r.Strategy == system.BBR {
						r.Strategy = system.NoAdaptive
					} else {
						r.Strategy = system.BBR
					}
				case k == 1 && len(rules) > 0: // trigger only
					r := rules[rapid.IntRange(0, len(rules)-1).Draw(t, "which")]
					r.TriggerCount = drawTrig(r.MetricType)
				case k == 2 && len(rules) > 0: // metric type (and a trigger of that type)
					j := rapid.IntRange(0, len(rules)-1).Draw(t, "which")
					nr := drawRule(j)
					nr.ID = rules[j].ID
					rules[j] = nr
				case k == 3 && len(rules) > 0:
					j := rapid.IntRange(0, len(rules)-1).Draw(t, "which")
					rules = append(rules[:j:j], rules[j+1:]...)
				default:
					if len(rules) < 4 {
						rules = append(rules, drawRule(10+i))
					}
				}
				load("reload")
				reloaded = true
			case op == 0:
				dt := uint64(rapid.SampledFrom([]int{1, 7, 100, 499, 500, 501, 1000, 1500, 9500, 10000, 20000, 61000}).Draw(t, "dt"))
				hx.C.AddMs(dt)
				c.Op("advance %d", dt)
			case op == 1:
				sysLoad = rapid.SampledFrom([]float64{0, 0.5, 1, 2, 3}).Draw(t, "load")
				cpu = rapid.SampledFrom([]float64{0, 0.4, 0.6, 0.95}).Draw(t, "cpu")
				system_metric.SetSystemLoad(sysLoad)
				system_metric.SetSystemCpuUsage(cpu)
				c.Op("load=%v cpu=%v", sysLoad, cpu)
			case op == 2 || op == 3 || (op == 4 && len(lives) == 0):
				inbound := rapid.IntRange(0, 3).Draw(t, "inbound") > 0
				tt := base.Outbound
				if inbound {
					tt = base.Inbound
				}
				res := rapid.SampledFrom([]string{"a", "b", "c", base.TotalInBoundResourceName}).Draw(t, "res") // the aggregate's own name is an ordinary resource name for callers
				batch := uint32(rapid.IntRange(1, 3).Draw(t, "batch"))
				// inbound aggregate per the reference: aligned 1 s window over 500 ms buckets
				passTok := evs.Sum(model.Pass, now, 500, 1000)
				comp := evs.Sum(model.Complete, now, 500, 1000)
				rtSum := evs.Sum(model.Rt, now, 500, 1000)
				minRt := evs.Min(model.Rt, now, 500, 1000, 60000)
				if minRt < 1 {
					minRt = 1
				}
				peak := float64(evs.MaxBucket(model.Complete, now, 500, 1000)) * 2 // per second
				conc := 0
				for _, l := range lives {
					if l.inbound {
						conc++
					}
				}
				qps := float64(passTok)
				avg := 0.0
				if comp > 0 {
					avg = float64(rtSum / comp)
				}
				overCapacity := conc > 1 && float64(conc) > peak*float64(minRt)/1000.0
				violated := map[string]float64{}
				for _, r := range rules {
					switch r.MetricType {
					case system.InboundQPS:
						if qps >= r.TriggerCount {
							violated[r.ID] = qps
						}
					case system.Concurrency:
						if float64(conc) >= r.TriggerCount {
							violated[r.ID] = float64(conc)
						}
					case system.AvgRT:
						if avg >= r.TriggerCount {
							violated[r.ID] = avg
						}
					case system.Load:
						if sysLoad > r.TriggerCount && (r.Strategy != system.BBR || overCapacity) {
							violated[r.ID] = sysLoad
						}
						if sysLoad > r.TriggerCount && r.Strategy == system.BBR {
							bbrDecides = true
						}
					case system.CpuUsage:
						if cpu > r.TriggerCount && (r.Strategy != system.BBR || overCapacity) {
							violated[r.ID] = cpu
						}
						if cpu > r.TriggerCount && r.Strategy == system.BBR {
							bbrDecides = true
						}
					}
				}
				eo := []sentinel.EntryOption{sentinel.WithTrafficType(tt)}
				if !(batch == 1 && rapid.Bool().Draw(t, "plainCall")) {
					eo = append(eo, sentinel.WithBatchCount(batch))
				}
				e, blk := sentinel.Entry(res, eo...)
				// (the system rules are consulted first, at the instant of the call; a pacing flow rule on the resource may then make
				// the single caller sleep inside Entry: the pass is recorded when the wait is over, the response time runs from the call)
				called := now
				now = hx.C.Ms()
				if now != called {
					c.Class("inbound-request-queued-by-a-pacing-flow-rule")
				}
				c.Op("t=%d Entry(%s inbound=%v batch=%d) qps=%v conc=%d avgRt=%v load=%v cpu=%v overCap=%v -> blocked=%v (waited %d ms)", called, res, inbound, batch, qps, conc, avg, sysLoad, cpu, overCapacity, blk != nil, now-called)
				if e != nil {
					lives = append(lives, &lv{next, e, called, inbound, batch})
					next++
				}
				if !inbound {
					sawOut = true
					if blk != nil {
						t.Fatalf("outbound request on %s was blocked: %v", res, blk)
					}
					break
				}
				expBlock := len(violated) > 0
				if expBlock != (blk != nil) {
					t.Fatalf("t=%d inbound request: reference says violated rules=%v (qps=%v conc=%d avgRt=%v load=%v cpu=%v peak=%v/s minRt=%d overCapacity=%v), library returned block=%v", now, violated, qps, conc, avg, sysLoad, cpu, peak, minRt, overCapacity, blk)
				}
				if blk != nil {
					sawInBlock = true
					if blk.BlockType() != base.BlockTypeSystemFlow {
						t.Fatalf("block type %v, want system", blk.BlockType())
					}
					r, ok := blk.TriggeredRule().(*system.Rule)
					if !ok {
						t.Fatalf("triggered rule %v", blk.TriggeredRule())
					}
					want, isViolated := violated[r.ID]
					if !isViolated {
						t.Fatalf("blocked by rule %s which is not violated per the reference (%v)", r.ID, violated)
					}
					if v, ok := blk.TriggeredValue().(float64); !ok || v != want {
						t.Fatalf("triggered value %v, reference %v", blk.TriggeredValue(), want)
					}
				} else {
					sawInPass = true
					evs = append(evs, model.Ev{T: now, Kind: model.Pass, Amt: int64(batch)})
				}
			case len(lives) > 0:
				k := rapid.IntRange(0, len(lives)-1).Draw(t, "k")
				l := lives[k]
				lives = append(lives[:k], lives[k+1:]...)
				if rapid.Bool().Draw(t, "err") {
					l.e.Exit(base.WithError(errors.New("x")))
				} else {
					l.e.Exit()
				}
				c.Op("t=%d Exit(#%d inbound=%v rt=%d)", now, l.id, l.inbound, now-l.start)
				if l.inbound {
					evs = append(evs, model.Ev{T: now, Kind: model.Complete, Amt: int64(l.batch)}, model.Ev{T: now, Kind: model.Rt, Amt: int64(now - l.start)})
				}
			}
		}
		c.ClassIf(sawInBlock && sawInPass && sawOut, "both-inbound-outcomes+outbound")
		c.ClassIf(bbrDecides, "bbr-capacity-term-consulted")
		c.ClassIf(reloaded && (sawInBlock || sawInPass), "rules-reloaded-mid-history")
		if (sawInBlock && sawInPass && sawOut) || bbrDecides {
			c.NonTrivial()
		}
	})
}
