// Package sched is a cooperative scheduler over the library's verif-tag yield points
// (util.VerifYield). Tasks are real goroutines, but exactly one of them (or the driver) runs at
// any time: a task runs only from Step until it reaches its next yield point (or finishes), so
// the interleaving of the instrumented atomic accesses is chosen by the caller and replays
// deterministically.
package sched

import (
	"fmt"
	"strings"
	"sync/atomic"
	"time"

	"github.com/alibaba/sentinel-golang/util"
)

type Task struct {
	ID     int
	Done   bool
	Point  string // the yield point the task is parked at ("start" before its first step)
	Steps  int
	Panic  interface{}
	Trace  []string // yield points passed, in order
	resume chan struct{}
	parked chan string
}

const doneMark = "\x00done"

type S struct {
	prefixes []string
	cur      atomic.Pointer[Task]
	tasks    []*Task
	// StepTimeout bounds one Step in wall time; expiry is an infrastructure failure (panic).
	StepTimeout time.Duration
}

// New installs a scheduler; only yield points whose name starts with one of the prefixes park
// (none given = all points).
func New(prefixes ...string) *S {
	s := &S{prefixes: prefixes, StepTimeout: 20 * time.Second}
	util.VerifSetYield(s.yield)
	return s
}

// Close finishes every task (fairly, round-robin) and removes the yield function.
func (s *S) Close() {
	s.FinishAll(1 << 20)
	util.VerifSetYield(nil)
}

func (s *S) yield(point string) {
	t := s.cur.Load()
	if t == nil {
		return // not called from a task: the driver (sequential set-up) or a foreign goroutine
	}
	if len(s.prefixes) > 0 {
		ok := false
		for _, p := range s.prefixes {
			if strings.HasPrefix(point, p) {
				ok = true
				break
			}
		}
		if !ok {
			return
		}
	}
	s.cur.Store(nil)
	t.parked <- point
	<-t.resume
	s.cur.Store(t)
}

// Yield is a user-level yield point: it parks the calling task unconditionally (no prefix filter).
func (s *S) Yield(point string) {
	t := s.cur.Load()
	if t == nil {
		return
	}
	s.cur.Store(nil)
	t.parked <- point
	<-t.resume
	s.cur.Store(t)
}

// Spawn creates a task that will run f; it does not start before its first Step.
func (s *S) Spawn(f func()) *Task {
	t := &Task{ID: len(s.tasks), resume: make(chan struct{}), parked: make(chan string), Point: "start"}
	s.tasks = append(s.tasks, t)
	go func() {
		<-t.resume
		s.cur.Store(t)
		defer func() {
			if r := recover(); r != nil {
				t.Panic = r
			}
			s.cur.Store(nil)
			t.parked <- doneMark
		}()
		f()
	}()
	return t
}

// Step lets t run until its next yield point or its end. It returns the point reached ("" when
// the task finished).
func (s *S) Step(t *Task) string {
	if t.Done {
		return ""
	}
	t.Steps++
	t.resume <- struct{}{}
	select {
	case p := <-t.parked:
		if p == doneMark {
			t.Done = true
			t.Point = ""
			return ""
		}
		t.Point = p
		t.Trace = append(t.Trace, p)
		return p
	case <-time.After(s.StepTimeout):
		panic(fmt.Sprintf("sched: task %d did not reach a yield point within %v after %q (blocked outside the instrumented points?)", t.ID, s.StepTimeout, t.Point))
	}
}

// Finish runs t to completion; it reports false when the step cap is hit first.
func (s *S) Finish(t *Task, maxSteps int) bool {
	for i := 0; !t.Done; i++ {
		if i >= maxSteps {
			return false
		}
		s.Step(t)
	}
	return true
}

// FinishAll completes all tasks round-robin (a fair schedule); false when the cap is hit.
func (s *S) FinishAll(maxSteps int) bool {
	for n := 0; ; {
		live := false
		for _, t := range s.tasks {
			if !t.Done {
				live = true
				s.Step(t)
				n++
				if n >= maxSteps {
					return false
				}
			}
		}
		if !live {
			return true
		}
	}
}

// Live returns the tasks that have not finished.
func (s *S) Live() []*Task {
	var l []*Task
	for _, t := range s.tasks {
		if !t.Done {
			l = append(l, t)
		}
	}
	return l
}

func (s *S) Tasks() []*Task { return s.tasks }

// Current returns the task that is running right now (nil when the driver runs).
func (s *S) Current() *Task { return s.cur.Load() }

// ---------------------------------------------------------------------------------------------
// Preemption-bounded systematic exploration (stateless: every schedule is executed from scratch).

type decision struct {
	options []int // alternatives in the order they are tried; options[0] is the default
	cost    []int // preemption cost of each alternative
	idx     int   // alternative taken in the current run
	used    int   // preemptions used before this decision
}

// Explorer enumerates all schedules with at most MaxPreempt preemptions. A run calls Choose at
// every decision point with the set of enabled actors and the actor that ran last (-1 = none);
// continuing the last actor is free, switching away from it while it is still enabled costs one
// preemption.
type Explorer struct {
	MaxPreempt int
	stack      []decision
	pos        int
	Runs       int
}

// Choose returns the actor to run next.
func (e *Explorer) Choose(enabled []int, last int) int {
	if e.pos < len(e.stack) { // replaying the prefix
		d := e.stack[e.pos]
		e.pos++
		return d.options[d.idx]
	}
	used := 0
	if n := len(e.stack); n > 0 {
		p := e.stack[n-1]
		used = p.used + p.cost[p.idx]
	}
	lastEnabled := false
	for _, a := range enabled {
		if a == last {
			lastEnabled = true
		}
	}
	var d decision
	d.used = used
	if lastEnabled {
		d.options = append(d.options, last)
		d.cost = append(d.cost, 0)
	}
	for _, a := range enabled {
		if a == last {
			continue
		}
		c := 0
		if lastEnabled {
			c = 1
		}
		d.options = append(d.options, a)
		d.cost = append(d.cost, c)
	}
	e.stack = append(e.stack, d)
	e.pos++
	return d.options[0]
}

// Next prepares the next schedule; false when the bounded space is exhausted.
func (e *Explorer) Next() bool {
	e.Runs++
	for len(e.stack) > 0 {
		d := &e.stack[len(e.stack)-1]
		found := false
		for d.idx+1 < len(d.options) {
			d.idx++
			if d.used+d.cost[d.idx] <= e.MaxPreempt {
				found = true
				break
			}
		}
		if found {
			e.pos = 0
			return true
		}
		e.stack = e.stack[:len(e.stack)-1]
	}
	return false
}

// Trace returns the actors chosen in the current run (for reporting).
func (e *Explorer) Trace() []int {
	var tr []int
	for _, d := range e.stack {
		tr = append(tr, d.options[d.idx])
	}
	return tr
}
