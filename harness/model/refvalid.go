package model

import (
	cb "github.com/alibaba/sentinel-golang/core/circuitbreaker"
	"github.com/alibaba/sentinel-golang/core/flow"
	"github.com/alibaba/sentinel-golang/core/hotspot"
	"github.com/alibaba/sentinel-golang/core/isolation"
	"github.com/alibaba/sentinel-golang/core/outlier"
	"github.com/alibaba/sentinel-golang/core/system"
	"github.com/alibaba/sentinel-golang/core/system_metric"
)

// Reference validity predicates, written down from the documented constraints of every rule type (field comments and
// the error texts of the validators). The checks decide "valid" with THESE; they never ask the library.

func ValidFlow(r *flow.Rule) bool {
	if r == nil || r.Resource == "" || r.Threshold < 0 || int32(r.TokenCalculateStrategy) < 0 || int32(r.ControlBehavior) < 0 {
		return false
	}
	if r.RelationStrategy != flow.CurrentResource && r.RelationStrategy != flow.AssociatedResource {
		return false
	}
	if r.RelationStrategy == flow.AssociatedResource && r.RefResource == "" {
		return false
	}
	if r.TokenCalculateStrategy == flow.WarmUp && (r.WarmUpPeriodSec == 0 || r.WarmUpColdFactor == 1) {
		return false
	}
	if r.TokenCalculateStrategy == flow.MemoryAdaptive {
		if r.LowMemUsageThreshold <= 0 || r.HighMemUsageThreshold <= 0 || r.HighMemUsageThreshold >= r.LowMemUsageThreshold {
			return false
		}
		if r.MemLowWaterMarkBytes <= 0 || r.MemHighWaterMarkBytes <= 0 || r.MemHighWaterMarkBytes > int64(system_metric.TotalMemorySize) || r.MemLowWaterMarkBytes >= r.MemHighWaterMarkBytes {
			return false
		}
	}
	return true
}

func ValidIsolation(r *isolation.Rule) bool {
	return r != nil && r.Resource != "" && r.MetricType == isolation.Concurrency && r.Threshold != 0
}

func ValidSystem(r *system.Rule) bool {
	if r == nil || r.TriggerCount < 0 || r.MetricType >= system.MetricTypeSize {
		return false
	}
	return !(r.MetricType == system.CpuUsage && r.TriggerCount > 1) // CPU usage: [0.0, 1.0], both ends included
}

func ValidCb(r *cb.Rule) bool {
	if r == nil || r.Resource == "" || r.StatIntervalMs == 0 || r.RetryTimeoutMs == 0 || r.Threshold < 0 {
		return false
	}
	if (r.Strategy == cb.SlowRequestRatio || r.Strategy == cb.ErrorRatio) && r.Threshold > 1 { // ratios: [0.0, 1.0]
		return false
	}
	return true
}

func ValidHotspot(r *hotspot.Rule) bool {
	if r == nil || r.Resource == "" || r.Threshold < 0 || r.MetricType < 0 || r.ControlBehavior < 0 {
		return false
	}
	if r.MetricType == hotspot.QPS && r.DurationInSec <= 0 {
		return false
	}
	if r.ParamIndex > 0 && r.ParamKey != "" {
		return false
	}
	if r.ControlBehavior == hotspot.Reject && r.BurstCount < 0 {
		return false
	}
	if r.ControlBehavior == hotspot.Throttling && r.MaxQueueingTimeMs < 0 {
		return false
	}
	return true
}

func ValidOutlier(r *outlier.Rule) bool {
	return r != nil && r.Rule != nil && r.Resource != "" && r.MaxEjectionPercent >= 0 && r.MaxEjectionPercent <= 1
}
