// Package model holds the reference models the checks compare the library against. They are
// written from the property statements, not from the library code.
package model

// Metric event kinds (same numbering as base.MetricEvent) plus a pseudo kind for concurrency updates.
const (
	Pass = iota
	Block
	Complete
	Error
	Rt
	Conc // UpdateConcurrency(amt)
)

// Ev is one recorded statistic event.
type Ev struct {
	T    uint64 // ms
	Kind int
	Amt  int64
}

// Events is the multiset of everything recorded so far.
type Events []Ev

// WinEnd is the (exclusive) end of the bucket-aligned window at now: the end of the current bucket.
func WinEnd(now, bucketLen uint64) uint64 { return now - now%bucketLen + bucketLen }

// In reports whether t lies in the aligned window of the given length ending at the current bucket
// of now (clamped at zero).
func In(t, now, bucketLen, length uint64) bool {
	end := WinEnd(now, bucketLen)
	lo := uint64(0)
	if end > length {
		lo = end - length
	}
	return t >= lo && t < end
}

// Sum adds the amounts of all events of a kind inside the aligned window.
func (e Events) Sum(kind int, now, bucketLen, length uint64) int64 {
	var s int64
	for _, x := range e {
		if x.Kind == kind && In(x.T, now, bucketLen, length) {
			s += x.Amt
		}
	}
	return s
}

// Min returns the minimum amount of a kind in the window, or def if there is none.
func (e Events) Min(kind int, now, bucketLen, length uint64, def int64) int64 {
	m := def
	for _, x := range e {
		if x.Kind == kind && In(x.T, now, bucketLen, length) && x.Amt < m {
			m = x.Amt
		}
	}
	return m
}

// Max returns the maximum amount of a kind in the window, or def if there is none.
func (e Events) Max(kind int, now, bucketLen, length uint64, def int64) int64 {
	m := def
	for _, x := range e {
		if x.Kind == kind && In(x.T, now, bucketLen, length) && x.Amt > m {
			m = x.Amt
		}
	}
	return m
}

// MaxBucket returns the largest per-bucket sum of a kind over the buckets of the window.
func (e Events) MaxBucket(kind int, now, bucketLen, length uint64) int64 {
	per := map[uint64]int64{}
	for _, x := range e {
		if x.Kind == kind && In(x.T, now, bucketLen, length) {
			per[x.T-x.T%bucketLen] += x.Amt
		}
	}
	var m int64
	for _, v := range per {
		if v > m {
			m = v
		}
	}
	return m
}

// Prune drops events older than keep ms before now (purely an optimisation for long histories).
func (e Events) Prune(now, keep uint64) Events {
	if now < keep {
		return e
	}
	lo := now - keep
	i := 0
	for i < len(e) && e[i].T < lo {
		i++
	}
	return e[i:]
}
