package model

import "math"

// Breaker states (same numbering as circuitbreaker.State).
const (
	Closed   = 0
	HalfOpen = 1
	Open     = 2
)

// Strategies (same numbering as circuitbreaker.Strategy).
const (
	SlowRequestRatio = 0
	ErrorRatio       = 1
	ErrorCount       = 2
)

type BreakerRule struct {
	ID               string
	Strategy         int
	RetryTimeoutMs   uint64
	MinRequestAmount uint64
	StatIntervalMs   uint64
	BucketCount      uint64 // as configured; 0 or a non-divisor means one bucket
	MaxAllowedRtMs   uint64
	Threshold        float64
	ProbeNum         uint64
}

// Transition is one listener notification.
type Transition struct {
	From, To int
	Rule     string
}

type completion struct {
	t    uint64
	fail bool // error (error strategies) or slow (slow-request strategy)
}

// Breaker is the three-state reference machine of one circuit-breaking rule, written from the
// property statement: driven only by completed requests and time.
type Breaker struct {
	// TripValues: the value that reached the threshold at each Closed->Open transition (window error count, or ratio)
	TripValues []float64
	R          BreakerRule
	State      int
	RetryAt    uint64
	Probes     uint64
	OpenedAt   uint64
	comps      []completion
	Log        *[]Transition
}

func NewBreaker(r BreakerRule, log *[]Transition) *Breaker {
	return &Breaker{R: r, Log: log}
}

// Rebuilt is the breaker that replaces b when its rule is modified without touching the statistic parameters
// (interval, bucket count, strategy): closed, probes reset, the window of completed requests kept.
func (b *Breaker) Rebuilt(r BreakerRule) *Breaker {
	return &Breaker{R: r, Log: b.Log, comps: append([]completion(nil), b.comps...)}
}

func (b *Breaker) bucketLen() uint64 {
	n := b.R.BucketCount
	if n == 0 || b.R.StatIntervalMs%n != 0 {
		n = 1
	}
	return b.R.StatIntervalMs / n
}

func (b *Breaker) emit(from, to int) {
	if b.Log != nil {
		*b.Log = append(*b.Log, Transition{from, to, b.R.ID})
	}
	b.State = to
}

// Window returns (failures, total) of completions inside the aligned statistic window at now.
func (b *Breaker) Window(now uint64) (fail, total uint64) {
	bl := b.bucketLen()
	for _, c := range b.comps {
		if In(c.t, now, bl, b.R.StatIntervalMs) {
			total++
			if c.fail {
				fail++
			}
		}
	}
	return
}

// TryPass: may a request enter now? transitioned reports that this very call moved the breaker
// Open -> HalfOpen (the request is the probe; if it is rejected further down the chain the
// breaker must be rolled back with Rollback).
func (b *Breaker) TryPass(now uint64) (pass, transitioned bool) {
	switch b.State {
	case Closed:
		return true, false
	case Open:
		if now >= b.RetryAt {
			b.emit(Open, HalfOpen)
			return true, true
		}
		return false, false
	default: // HalfOpen
		return b.R.ProbeNum > 0, false
	}
}

// Rollback: the probe that moved the breaker to HalfOpen was blocked by another rule.
func (b *Breaker) Rollback() {
	if b.State == HalfOpen {
		b.emit(HalfOpen, Open)
	}
}

// Complete: a request of this resource completed at now with the given response time and error.
func (b *Breaker) Complete(now, rt uint64, err bool) {
	fail := err
	if b.R.Strategy == SlowRequestRatio {
		fail = rt > b.R.MaxAllowedRtMs
	}
	b.comps = append(b.comps, completion{now, fail})
	// keep the list short
	if len(b.comps) > 256 {
		var keep []completion
		for _, c := range b.comps {
			if c.t+2*b.R.StatIntervalMs >= now {
				keep = append(keep, c)
			}
		}
		b.comps = keep
	}
	switch b.State {
	case Open:
		return
	case HalfOpen:
		if fail {
			b.Probes = 0
			b.RetryAt = now + b.R.RetryTimeoutMs
			b.OpenedAt = now
			b.emit(HalfOpen, Open)
			return
		}
		b.Probes++
		if b.R.ProbeNum == 0 || b.Probes >= b.R.ProbeNum {
			b.Probes = 0
			b.emit(HalfOpen, Closed)
			b.comps = nil // closing clears the statistics
		}
		return
	}
	f, total := b.Window(now)
	if total < b.R.MinRequestAmount {
		return
	}
	trip := false
	switch b.R.Strategy {
	case ErrorCount:
		trip = f >= uint64(b.R.Threshold)
	default:
		ratio := float64(f) / float64(total)
		trip = ratio > b.R.Threshold || math.Abs(ratio-b.R.Threshold) < 1e-8
	}
	if trip {
		b.RetryAt = now + b.R.RetryTimeoutMs
		b.OpenedAt = now
		if b.R.Strategy == ErrorCount {
			b.TripValues = append(b.TripValues, float64(f))
		} else {
			b.TripValues = append(b.TripValues, float64(f)/float64(total))
		}
		b.emit(Closed, Open)
	}
}

// Rejects reports, without side effects, whether the breaker would reject a request at now.
func (b *Breaker) Rejects(now uint64) bool {
	switch b.State {
	case Closed:
		return false
	case Open:
		return now < b.RetryAt
	default:
		return b.R.ProbeNum == 0
	}
}
