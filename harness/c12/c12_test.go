// C12: breaker transitions are atomic and probes exclusive under concurrency.
package c12

import (
	"errors"
	"fmt"
	"os"
	"strconv"
	"testing"

	sentinel "github.com/alibaba/sentinel-golang/api"
	"github.com/alibaba/sentinel-golang/core/base"
	cb "github.com/alibaba/sentinel-golang/core/circuitbreaker"
	"pgregory.net/rapid"

	"verif/harness/hx"
	"verif/harness/model"
	"verif/harness/sched"
)

func TestMain(m *testing.M) { hx.Main(m, "C12") }

type note struct{ from, to int }

type listener struct{ log []note }

// only the breaker under test (rule "r") is recorded; the optional blocking breaker "blk" is scenery
func (l *listener) OnTransformToClosed(prev cb.State, r cb.Rule) {
	if r.Id == "r" {
		l.log = append(l.log, note{int(prev), model.Closed})
	}
}
func (l *listener) OnTransformToOpen(prev cb.State, r cb.Rule, _ interface{}) {
	if r.Id == "r" {
		l.log = append(l.log, note{int(prev), model.Open})
	}
}
func (l *listener) OnTransformToHalfOpen(prev cb.State, r cb.Rule) {
	if r.Id == "r" {
		l.log = append(l.log, note{int(prev), model.HalfOpen})
	}
}

const (
	oEntry = iota
	oExitOK
	oExitErr
)

var opName = []string{"entry", "exit-ok", "exit-err"}

type program struct {
	strategy int
	probeNum uint64
	retry    uint64
	start    int // 0 closed one short of tripping, 1 open near the deadline, 2 half-open with the probe in flight
	early    uint64
	preHeld  []int  // entries each task holds at the start (obtained while closed)
	eras     []era  // scripted eras (nil: free schedule with ticks as schedule actions)
	statIv   uint32 // statistic interval of the rule in ms (0 = 10000)
	buckets  uint32 // bucket count of the rule's window (0 = 1)
	laPoints bool   // the accesses of the breaker's own bucket array are scheduling points too
	blocker  bool   // a second breaker on the resource, after the one under test, that stays open: every probe of
	// the first is blocked by it and rolled back to open by the probe's exit hook
	tasks     [][]int
	tickKinds []uint64
}

type era struct {
	tick  uint64 // clock advance before the era
	start []int  // tasks that may start their next operation in this era
}

type opRec struct {
	g, kind  int
	s0, s1   int
	c0, c1   uint64
	admitted bool
	done     bool
	st0      int // breaker state observed by the driver when the op started
}

type change struct {
	from, to int
	step     int
	clock    uint64
	since    uint64 // clock at which the operation that performed the transition started
	op       *opRec
}

var bizErr = errors.New("biz")

func execute(c *hx.Case, p program, choose func(enabled []int, last int) int, tick func() uint64, maxTicks int) string {
	v, aba := execute2(c, p, choose, tick, maxTicks)
	if v != "" && aba && len(v) > 3 && v[:3] == "(b)" && hx.Known("P23") {
		// known finding P23: ABA on the state CAS (see known_findings.jsonl); only this history shape is excluded
		c.Excluded("P23")
		return ""
	}
	return v
}

// execute2 runs one schedule; aba reports the P23 signature: some Entry performed Open->HalfOpen although the
// breaker, after that Entry had started, was taken out of Open by another operation and opened again.
func execute2(c *hx.Case, p program, choose func(enabled []int, last int) int, tick func() uint64, maxTicks int) (verdictOut string, aba bool) {
	hx.Reset(hx.Epoch)
	lis := &listener{}
	cb.RegisterStateChangeListeners(lis)
	rule := &cb.Rule{Id: "r", Resource: "res", Strategy: cb.Strategy(p.strategy), RetryTimeoutMs: uint32(p.retry), MinRequestAmount: 1,
		StatIntervalMs: 10000, StatSlidingWindowBucketCount: 1, ProbeNum: p.probeNum}
	switch p.strategy {
	case model.ErrorCount:
		rule.Threshold = 2
	case model.ErrorRatio:
		rule.Threshold = 0.6
		rule.MinRequestAmount = 2
	case model.SlowRequestRatio:
		rule.Threshold = 0.6
		rule.MinRequestAmount = 2
		rule.MaxAllowedRtMs = 1000000 // nothing is slow: use a second error-count rule? no: slow strategy is driven by rt
	}
	if p.strategy == model.SlowRequestRatio {
		rule.MaxAllowedRtMs = 0 // rt > 0 is slow: a completion is "bad" iff the clock advanced since its entry
	}
	if p.statIv != 0 {
		rule.StatIntervalMs = p.statIv
	}
	if p.buckets != 0 {
		rule.StatSlidingWindowBucketCount = p.buckets
	}
	rules := []*cb.Rule{rule}
	if p.blocker {
		rules = append(rules, &cb.Rule{Id: "blk", Resource: "res", Strategy: cb.ErrorCount, RetryTimeoutMs: 3600000, MinRequestAmount: 1,
			StatIntervalMs: 10000, StatSlidingWindowBucketCount: 1, Threshold: 2})
	}
	if _, err := cb.LoadRules(rules); err != nil {
		return "LoadRules: " + err.Error(), false
	}
	brs := cb.GetRulesOfResource("res")
	if len(brs) != len(rules) {
		return "rule not loaded", false
	}
	// ---- sequential preparation (the driver is not a task: yield points do not park it) ----
	fail := func() { // one bad completion
		e, _ := sentinel.Entry("res")
		if e == nil {
			return
		}
		if p.strategy == model.SlowRequestRatio {
			hx.C.AddMs(1)
		}
		e.Exit(base.WithError(bizErr))
	}
	held := make([][]*base.SentinelEntry, len(p.tasks))
	heldAt := make([][]uint64, len(p.tasks))
	for g := range p.tasks { // entries the tasks will complete concurrently (admitted while closed)
		for i := 0; i < p.preHeld[g]; i++ {
			if e, _ := sentinel.Entry("res"); e != nil {
				held[g] = append(held[g], e)
				heldAt[g] = append(heldAt[g], hx.C.Ms())
			}
		}
	}
	if p.strategy == model.SlowRequestRatio {
		hx.C.AddMs(1) // held entries now have rt >= 1: slow
	}
	fail() // one short of tripping (count 1 of 2; ratio 1/1 with min 2)
	if p.start >= 1 {
		fail() // trips
		hx.C.AddMs(p.retry - p.early)
	}
	if p.start == 2 {
		if e, _ := sentinel.Entry("res"); e != nil { // the probe, handed to task 0
			held[0] = append(held[0], e)
		}
	}
	breakerState := func() int { return int(getBreaker().CurrentState()) }
	var changes []change
	prepNotes := len(lis.log)
	prepState := breakerState()
	lastOpenClock := hx.C.Ms() // conservative: when prepared open, the breaker opened at (now - (retry-early)) or later
	if p.start >= 1 {
		lastOpenClock = hx.C.Ms() - (p.retry - p.early)
	}

	s := sched.New("cb.")
	if p.laPoints {
		s.Close()
		s = sched.New("cb.", "la.")
	}
	defer s.Close()
	stepNo := 0
	var ops []*opRec
	curOp := map[int]*opRec{}
	var tasks []*sched.Task
	for g := range p.tasks {
		g := g
		tasks = append(tasks, s.Spawn(func() {
			for _, k := range p.tasks[g] {
				o := &opRec{g: g, kind: k, s0: stepNo, c0: hx.C.Ms(), st0: -1}
				ops = append(ops, o)
				curOp[g] = o
				switch k {
				case oEntry:
					e, _ := sentinel.Entry("res")
					o.admitted = e != nil
					if e != nil {
						held[g] = append(held[g], e)
					}
				case oExitOK, oExitErr:
					if len(held[g]) > 0 {
						e := held[g][0]
						held[g] = held[g][1:]
						if k == oExitErr {
							e.Exit(base.WithError(bizErr))
						} else {
							e.Exit()
						}
					}
				}
				o.s1, o.c1, o.done = stepNo, hx.C.Ms(), true
				s.Yield("user.opdone")
			}
		}))
	}
	cur := prepState
	stateAt := map[int]int{0: cur}
	step := func(tk *sched.Task) {
		stepNo++
		s.Step(tk)
		if ns := breakerState(); ns != cur {
			ch := change{from: cur, to: ns, step: stepNo, clock: hx.C.Ms(), since: hx.C.Ms()}
			if o := curOp[tk.ID]; o != nil {
				ch.since = o.c0
				ch.op = o
			}
			changes = append(changes, ch)
			cur = ns
		}
		stateAt[stepNo] = cur
	}
	ticks, last, k := 0, -1, len(tasks)
	inside2 := false
	// Scripted eras: the clock advances between eras by given amounts; in each era the listed tasks may start their next
	// operation; a task preempted inside an operation stays suspended into later eras (a straggler) and may be resumed at
	// any later step. The schedule inside the eras (and when to move on) is the explorer's choice.
	for _, er := range p.eras {
		if er.tick > 0 {
			hx.C.AddMs(er.tick)
			c.Op("tick %d", er.tick)
		}
		released := map[int]bool{}
		for _, g := range er.start {
			released[g] = true
		}
		for stepNo < 500 {
			var enabled []int
			inside, canAdvance := 0, true
			for i, tk := range tasks {
				if tk.Done {
					continue
				}
				if tk.Point != "start" && tk.Point != "user.opdone" {
					inside++
					enabled = append(enabled, i)
				} else if released[i] {
					enabled = append(enabled, i)
					canAdvance = false // every released operation is at least started before the era ends
				}
			}
			if inside >= 2 {
				inside2 = true
			}
			if canAdvance {
				enabled = append(enabled, k)
			}
			a := choose(enabled, last)
			last = a
			if a == k {
				break
			}
			delete(released, a)
			step(tasks[a])
			c.Op("g%d@%s state=%d", a, tasks[a].Point, cur)
		}
	}
	for p.eras == nil && stepNo < 500 {
		var enabled []int
		inside := 0
		for i, tk := range tasks {
			if !tk.Done {
				enabled = append(enabled, i)
				if tk.Point != "start" && tk.Point != "user.opdone" {
					inside++
				}
			}
		}
		if inside >= 2 {
			inside2 = true
		}
		if len(enabled) == 0 {
			break
		}
		if ticks < maxTicks {
			enabled = append(enabled, k)
		}
		a := choose(enabled, last)
		last = a
		if a == k {
			d := tick()
			hx.C.AddMs(d)
			ticks++
			c.Op("tick %d", d)
			continue
		}
		step(tasks[a])
		c.Op("g%d@%s state=%d", a, tasks[a].Point, cur)
	}
	for guard := 0; len(s.Live()) > 0; guard++ {
		if guard > 5000 {
			return "(d) a task did not terminate under a fair completion schedule", false
		}
		for _, tk := range s.Live() {
			step(tk)
		}
	}
	for _, tk := range tasks {
		if tk.Panic != nil {
			return fmt.Sprintf("task %d panicked: %v", tk.ID, tk.Panic), aba
		}
	}
	notes := append([]note{}, lis.log[prepNotes:]...)
	defer func() { // leave nothing in flight (after the verdict: these exits cause further transitions)
		for g := range held {
			for _, e := range held[g] {
				e.Exit()
			}
		}
	}()
	if inside2 && len(changes) > 0 {
		c.NonTrivial()
		c.Class("two-tasks-inside+transition")
		rolled := false
		for _, ch := range changes {
			if p.blocker && ch.from == model.HalfOpen && ch.to == model.Open && ch.op != nil && ch.op.kind == oEntry {
				rolled = true
			}
		}
		c.ClassIf(rolled, "probe-blocked-by-later-breaker-and-rolled-back")
	}
	dump := func() string {
		out := fmt.Sprintf("strategy=%d probeNum=%d retry=%d start=%d early=%d preHeld=%v tasks=%v; prepared state %d; changes(from,to,step,clock+)=", p.strategy, p.probeNum, p.retry, p.start, p.early, p.preHeld, p.tasks, prepState)
		for _, ch := range changes {
			out += fmt.Sprintf("(%d->%d @%d +%d since +%d) ", ch.from, ch.to, ch.step, ch.clock-hx.Epoch, ch.since-hx.Epoch)
		}
		out += fmt.Sprintf("notifications=%v ops=", notes)
		for _, o := range ops {
			out += fmt.Sprintf("[g%d %s steps %d..%d clk +%d..+%d admitted=%v] ", o.g, opName[o.kind], o.s0, o.s1, o.c0-hx.Epoch, o.c1-hx.Epoch, o.admitted)
		}
		return out
	}
	for _, ch := range changes {
		if ch.from == model.Open && ch.to == model.HalfOpen && ch.op != nil && ch.op.kind == oEntry {
			// ... although, after that Entry had started, ANOTHER operation took the breaker out of Open (became the probe) and
			// the breaker was opened again: the Entry's CAS succeeds on a later Open period than the one it evaluated
			for _, ch1 := range changes {
				if ch1.from == model.Open && ch1.op != ch.op && ch1.step > ch.op.s0 && ch1.step < ch.step {
					for _, ch2 := range changes {
						if ch2.to == model.Open && ch2.step > ch1.step && ch2.step < ch.step {
							aba = true
						}
					}
				}
			}
		}
	}
	// (a) every transition reported exactly once with the right previous state
	want := map[note]int{}
	for _, ch := range changes {
		want[note{ch.from, ch.to}]++
	}
	got := map[note]int{}
	for _, n := range notes {
		got[n]++
	}
	for n, w := range want {
		if got[n] != w {
			return fmt.Sprintf("(a) transition %d->%d happened %d time(s) but was reported %d time(s): %s", n.from, n.to, w, got[n], dump()), aba
		}
	}
	for n, g := range got {
		if want[n] != g {
			return fmt.Sprintf("(a) listeners were told of %d transition(s) %d->%d, %d happened: %s", g, n.from, n.to, want[n], dump()), aba
		}
	}
	for _, ch := range changes {
		legal := (ch.from == model.Closed && ch.to == model.Open) || (ch.from == model.Open && ch.to == model.HalfOpen) ||
			(ch.from == model.HalfOpen && (ch.to == model.Open || ch.to == model.Closed))
		if !legal {
			return fmt.Sprintf("(a) illegal transition %d->%d: %s", ch.from, ch.to, dump()), aba
		}
	}
	// (b) while open nothing is admitted before a full retry timeout has elapsed since it opened;
	// (c) probeNum 0: a request that ran entirely inside one half-open period is never admitted
	for _, o := range ops {
		if o.kind != oEntry || !o.admitted {
			continue
		}
		st0 := stateAt[o.s0]
		openedAt := lastOpenClock
		openedByTimeout := true
		probeStep := -1 // the step at which this very request moved the breaker Open -> HalfOpen, if it did
		for _, ch := range changes {
			if ch.op == o && ch.from == model.Open && ch.to == model.HalfOpen {
				probeStep = ch.step
			}
		}
		for _, ch := range changes {
			if ch.to == model.Open && (ch.step <= o.s0 || (probeStep >= 0 && ch.step < probeStep)) {
				// measured from the clock reading of the completion that opened it: a completion acting
				// on a stale clock reading is indistinguishable from one that happened that much earlier
				openedAt = ch.since
				openedByTimeout = ch.from == model.Closed || ch.from == model.HalfOpen
			}
		}
		// a rollback (half-open -> open because the probe was blocked by another rule) keeps the old
		// deadline; it cannot happen here (single rule), every ->Open restarts the timeout
		_ = openedByTimeout
		if (st0 == model.Open || probeStep >= 0) && o.c1 < openedAt+p.retry {
			return fmt.Sprintf("(b) request g%d admitted at clock +%d while the breaker had been open only since +%d (retry timeout %d ms): %s", o.g, o.c1-hx.Epoch, openedAt-hx.Epoch, p.retry, dump()), aba
		}
		if st0 == model.HalfOpen && p.probeNum == 0 {
			changed := false
			for _, ch := range changes {
				if ch.step > o.s0 && ch.step <= o.s1 {
					changed = true
				}
			}
			if !changed {
				return fmt.Sprintf("(c) request g%d was admitted although the breaker stayed half-open (single probe) for its whole duration: %s", o.g, dump()), aba
			}
		}
	}
	// (c') ProbeNum 0: an admitted request that did not itself move the breaker Open -> HalfOpen must have a linearisation
	// point inside its span at which the breaker was closed: while open or half-open nothing but the probe is admitted
	// ("each passage to half-open admits exactly one probe until that probe completes")
	if p.probeNum == 0 {
		for _, o := range ops {
			if o.kind != oEntry || !o.admitted {
				continue
			}
			performer, sawClosed := false, false
			for _, ch := range changes {
				if ch.op == o && ch.from == model.Open && ch.to == model.HalfOpen {
					performer = true
				}
			}
			for st := o.s0; st <= o.s1; st++ {
				if v, ok := stateAt[st]; ok && v == model.Closed {
					sawClosed = true
				}
			}
			if !performer && !sawClosed {
				return fmt.Sprintf("(c') request g%d was admitted although the breaker was never closed during the request (steps %d..%d) and the request is not the one that moved it to half-open: a second request passed beside the probe: %s", o.g, o.s0, o.s1, dump()), aba
			}
		}
	}
	return "", aba
}

func getBreaker() cb.CircuitBreaker {
	for _, b := range cb.VerifBreakersOfResource("res") {
		if b.BoundRule().Id == "r" {
			return b
		}
	}
	panic("breaker of rule r not found")
}

func drawProgram(t *rapid.T) program {
	p := program{strategy: rapid.IntRange(0, 2).Draw(t, "strategy"), probeNum: uint64(rapid.SampledFrom([]int{0, 0, 2}).Draw(t, "probeNum")),
		retry: uint64(rapid.SampledFrom([]int{5, 10}).Draw(t, "retry")), start: rapid.IntRange(0, 2).Draw(t, "start")}
	p.early = uint64(rapid.IntRange(0, 1).Draw(t, "early"))
	p.blocker = p.start == 1 && rapid.IntRange(0, 2).Draw(t, "blocker") == 0
	ng := rapid.IntRange(2, 3).Draw(t, "tasks")
	for g := 0; g < ng; g++ {
		pre := 0
		if p.start == 0 || p.blocker {
			pre = rapid.IntRange(0, 2).Draw(t, "preHeld")
		}
		p.preHeld = append(p.preHeld, pre)
		nops := rapid.IntRange(1, 2).Draw(t, "nops")
		var ks []int
		for i := 0; i < nops; i++ {
			ks = append(ks, rapid.SampledFrom([]int{oEntry, oEntry, oExitOK, oExitErr, oExitErr}).Draw(t, "op"))
		}
		p.tasks = append(p.tasks, ks)
	}
	return p
}

func TestRandomSchedules(t *testing.T) {
	hx.Check(t, hx.N{Quick: 25000, Thorough: 400000}, func(t *rapid.T, c *hx.Case) {
		p := drawProgram(t)
		c.Op("program %+v", p)
		verdict := execute(c, p,
			func(enabled []int, last int) int { return enabled[rapid.IntRange(0, len(enabled)-1).Draw(t, "choice")] },
			func() uint64 { return rapid.SampledFrom([]uint64{1, p.retry - 1, p.retry}).Draw(t, "tick") }, 3)
		if verdict != "" {
			t.Fatalf("%s", verdict)
		}
	})
}

func basePrograms() []program {
	var ps []program
	for _, probe := range []uint64{0, 2} {
		// closed, one short: two tasks complete held entries with errors, a third enters
		ps = append(ps, program{strategy: model.ErrorCount, probeNum: probe, retry: 5, start: 0, preHeld: []int{1, 1, 0}, tasks: [][]int{{oExitErr}, {oExitErr}, {oEntry}}})
		ps = append(ps, program{strategy: model.ErrorRatio, probeNum: probe, retry: 5, start: 0, preHeld: []int{1, 0}, tasks: [][]int{{oExitErr}, {oEntry, oEntry}}})
		// the same shapes for every strategy (each strategy has its own TryPass and completion code)
		for _, st := range []int{model.ErrorCount, model.ErrorRatio, model.SlowRequestRatio} {
			ps = append(ps, program{strategy: st, probeNum: probe, retry: 5, start: 0, preHeld: []int{1, 0}, tasks: [][]int{{oExitErr}, {oEntry}}})
			ps = append(ps, program{strategy: st, probeNum: probe, retry: 5, start: 2, preHeld: []int{0, 0}, tasks: [][]int{{oExitErr}, {oEntry}}})
			ps = append(ps, program{strategy: st, probeNum: probe, retry: 5, start: 2, preHeld: []int{0, 0}, tasks: [][]int{{oExitOK}, {oEntry}}})
		}
		// open, deadline passed: two tasks race for the probe
		ps = append(ps, program{strategy: model.ErrorCount, probeNum: probe, retry: 5, start: 1, early: 0, preHeld: []int{0, 0}, tasks: [][]int{{oEntry, oExitErr}, {oEntry}}})
		ps = append(ps, program{strategy: model.ErrorCount, probeNum: probe, retry: 5, start: 1, early: 1, preHeld: []int{0, 0}, tasks: [][]int{{oEntry}, {oEntry}}})
		ps = append(ps, program{strategy: model.ErrorRatio, probeNum: probe, retry: 5, start: 1, early: 0, preHeld: []int{0, 0}, tasks: [][]int{{oEntry}, {oEntry}}})
		ps = append(ps, program{strategy: model.SlowRequestRatio, probeNum: probe, retry: 5, start: 1, early: 0, preHeld: []int{0, 0}, tasks: [][]int{{oEntry}, {oEntry}}})
		// half-open with the probe in flight: it completes while another request arrives
		ps = append(ps, program{strategy: model.ErrorCount, probeNum: probe, retry: 5, start: 2, preHeld: []int{0, 0}, tasks: [][]int{{oExitErr}, {oEntry}}})
		ps = append(ps, program{strategy: model.ErrorRatio, probeNum: probe, retry: 5, start: 2, preHeld: []int{0, 0}, tasks: [][]int{{oExitOK}, {oEntry, oExitErr}}})
		// stragglers from the closed era: A and B fail while closed (either may be suspended anywhere inside its completion),
		// a full retry timeout later C probes, 1 ms later the probe fails (re-open) or succeeds (close), and retry-1 ms
		// after that A asks again: that request is inside the second open period's timeout
		for _, st := range []int{model.ErrorCount, model.ErrorRatio, model.SlowRequestRatio} {
			for _, probeEnd := range []int{oExitErr, oExitOK} {
				ps = append(ps, program{strategy: st, probeNum: probe, retry: 5, start: 0, preHeld: []int{1, 1, 0}, tasks: [][]int{{oExitErr, oEntry}, {oExitErr}, {oEntry, probeEnd}},
					eras: []era{{0, []int{0, 1}}, {5, []int{2}}, {1, []int{2}}, {4, []int{0}}}})
			}
		}
		// a straggler from the closed era that outlives the whole outage: A and B fail while closed (open), a full retry
		// timeout later P probes, 1 ms later P succeeds while Z (admitted while closed) fails, in any interleaving of the two
		// completions; right after that Z asks again. If Z re-tripped the breaker its request is inside the new timeout.
		for _, st := range []int{model.ErrorCount, model.ErrorRatio, model.SlowRequestRatio} {
			for _, gap := range []uint64{0, 4} {
				ps = append(ps, program{strategy: st, probeNum: probe, retry: 5, start: 0, preHeld: []int{1, 1, 1, 0}, tasks: [][]int{{oExitErr}, {oExitErr}, {oExitErr, oEntry}, {oEntry, oExitOK}},
					eras: []era{{0, []int{0, 1}}, {5, []int{3}}, {1, []int{3, 2}}, {gap, []int{2}}}})
			}
		}
		// half-open with several probes allowed, a window of two buckets, the accesses of the breaker's bucket array as scheduling
		// points: the first probe's completion is suspended inside the array while a whole statistic interval passes and a
		// second probe comes and goes (its sample is then refused by the array): whatever the breaker does with such a
		// completion, every transition is reported
		if probe == 2 {
			for _, st := range []int{model.ErrorCount, model.ErrorRatio, model.SlowRequestRatio} {
				for _, second := range []int{oExitOK, oExitErr} {
					ps = append(ps, program{strategy: st, probeNum: 2, retry: 5, start: 2, preHeld: []int{0, 0}, statIv: 20, buckets: 2, laPoints: true,
						tasks: [][]int{{oExitOK}, {oEntry, second}}, eras: []era{{0, []int{0}}, {20, []int{1}}, {0, []int{1}}}})
				}
			}
		}
		// open, deadline passed, a second open breaker behind it: the probe is blocked and rolled back while a request
		// admitted before the outage completes
		ps = append(ps, program{strategy: model.ErrorCount, probeNum: probe, retry: 5, start: 1, blocker: true, preHeld: []int{0, 1}, tasks: [][]int{{oEntry}, {oExitOK}}})
		ps = append(ps, program{strategy: model.ErrorRatio, probeNum: probe, retry: 5, start: 1, blocker: true, preHeld: []int{0, 1, 0}, tasks: [][]int{{oEntry}, {oExitErr}, {oEntry}}})
	}
	return ps
}

func TestSystematicSchedules(t *testing.T) {
	maxPre := 1
	if hx.Thorough() {
		maxPre = 2
	}
	total := 0
	progs := basePrograms()
	shard, nshards := 0, 1
	if v, err := strconv.Atoi(os.Getenv("VERIF_NSHARDS")); err == nil && v > 1 {
		nshards = v
		shard, _ = strconv.Atoi(os.Getenv("VERIF_SHARD"))
	}
	for pi, p := range progs {
		if pi%nshards != shard {
			continue // the enumeration is split over processes by program index
		}
		ex := &sched.Explorer{MaxPreempt: maxPre}
		for {
			var verdict string
			hx.Plain(t, func(c *hx.Case) {
				c.Op("program#%d %+v maxPreempt=%d", pi, p, maxPre)
				verdict = execute(c, p, ex.Choose, func() uint64 { return 1 }, 1)
			})
			total++
			if verdict != "" {
				t.Fatalf("program#%d schedule %v: %s", pi, ex.Trace(), verdict)
			}
			if !ex.Next() {
				break
			}
		}
	}
	t.Logf("systematic: %d schedules of %d programs with <= %d preemptions", total, len(progs), maxPre)
}

// P23 (known): ABA on the state CAS. Found by enumerating the schedules of a fixed program until the signature shows up.
func TestP_KnownP23(t *testing.T) {
	hx.Plain(t, func(c *hx.Case) {
		p := program{strategy: model.ErrorCount, probeNum: 0, retry: 5, start: 1, early: 0, preHeld: []int{0, 0}, tasks: [][]int{{oEntry, oExitErr}, {oEntry}}}
		ex := &sched.Explorer{MaxPreempt: 2}
		found := ""
		for n := 0; n < 20000; n++ {
			v, aba := execute2(hx.ScratchCase(), p, ex.Choose, func() uint64 { return 1 }, 0)
			if aba && len(v) > 3 && v[:3] == "(b)" {
				found = v
				break
			}
			if !ex.Next() {
				break
			}
		}
		c.Op("open breaker with elapsed deadline; tasks [entry, exit-err] and [entry]; schedules with <= 2 preemptions searched for the ABA signature")
		hx.Witness(t, "C12", "P23", "a request that checked the retry deadline during one open period performs Open->HalfOpen after the breaker was re-opened by a failed probe (ABA on the state CAS): admitted although a full retry timeout has not elapsed", found != "")
		c.NonTrivial()
	})
}
