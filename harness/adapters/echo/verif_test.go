package echo

import (
	"net/http"
	"net/http/httptest"
	"testing"

	"github.com/labstack/echo/v4"
)

func TestVerifEchoMiddleware(t *testing.T) {
	vRunDriver(t, vDriver{Name: "echo.SentinelMiddleware", DefaultRes: "GET:/ping/:id", CustomRes: "custom-echo", HasFallback: true, CanPanic: true,
		Run: func(r vReq, handler func() error) vOut {
			var opts []Option
			if r.Extractor {
				opts = append(opts, WithResourceExtractor(func(echo.Context) string { return "custom-echo" }))
			}
			if r.Fallback {
				opts = append(opts, WithBlockFallback(func(c echo.Context) error { return c.String(http.StatusBadRequest, "fallback") }))
			}
			e := echo.New()
			e.HideBanner = true
			panicked := false
			var pv interface{}
			e.Use(func(next echo.HandlerFunc) echo.HandlerFunc {
				return func(c echo.Context) (err error) {
					defer func() {
						if v := recover(); v != nil {
							panicked, pv = true, v
							if !c.Response().Committed {
								err = c.String(http.StatusInternalServerError, "panic")
							}
						}
					}()
					return next(c)
				}
			})
			e.Use(SentinelMiddleware(opts...))
			e.GET("/ping/:id", func(c echo.Context) error {
				if err := handler(); err != nil {
					return c.String(http.StatusBadGateway, "err")
				}
				return c.String(http.StatusOK, "pong")
			})
			w := httptest.NewRecorder()
			e.ServeHTTP(w, httptest.NewRequest("GET", "/ping/7", nil))
			return vOut{Status: w.Code, Body: w.Body.String(), Panicked: panicked, PanicVal: pv}
		},
		Instance: func(ext, fb bool) func(func() error) vOut {
			var opts []Option
			if ext {
				opts = append(opts, WithResourceExtractor(func(echo.Context) string { return "custom-echo" }))
			}
			if fb {
				opts = append(opts, WithBlockFallback(func(c echo.Context) error { return c.String(http.StatusBadRequest, "fallback") }))
			}
			hs := &vHandlers{}
			type flags struct {
				panicked bool
				pv       interface{}
			}
			var cur []*flags
			e := echo.New()
			e.HideBanner = true
			// with an extractor and a fallback the middlewares are installed with Pre (they run before the router, the usual
			// set-up when the resource name does not come from the route), otherwise with Use
			install := e.Use
			if ext && fb {
				install = e.Pre
			}
			install(func(next echo.HandlerFunc) echo.HandlerFunc {
				return func(c echo.Context) (err error) {
					f := cur[len(cur)-1]
					defer func() {
						if v := recover(); v != nil {
							f.panicked, f.pv = true, v
							if !c.Response().Committed {
								err = c.String(http.StatusInternalServerError, "panic")
							}
						}
					}()
					return next(c)
				}
			})
			install(SentinelMiddleware(opts...)) // ONE middleware value for all requests of the combination
			e.GET("/ping/:id", func(c echo.Context) error {
				if err := hs.call(); err != nil {
					return c.String(http.StatusBadGateway, "err")
				}
				return c.String(http.StatusOK, "pong")
			})
			return func(h func() error) (out vOut) {
				f := &flags{}
				cur = append(cur, f)
				defer func() { cur = cur[:len(cur)-1] }()
				hs.with(h, func() {
					w := httptest.NewRecorder()
					e.ServeHTTP(w, httptest.NewRequest("GET", "/ping/7", nil))
					out = vOut{Status: w.Code, Body: w.Body.String(), Panicked: f.panicked, PanicVal: f.pv}
				})
				return out
			}
		},
		Rejected: vHTTPRejected})
}
