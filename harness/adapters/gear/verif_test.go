package gear

import (
	"net/http"
	"net/http/httptest"
	"testing"

	"github.com/teambition/gear"
)

// gear middleware cannot wrap the downstream handler (no Next): the entry is exited when the
// middleware returns, before the route handler runs (by design of the framework).
func TestVerifGearMiddleware(t *testing.T) {
	vRunDriver(t, vDriver{Name: "gear.SentinelMiddleware", DefaultRes: "GET:/ping/:id", CustomRes: "custom-gear", HasFallback: true, CanPanic: true,
		Run: func(r vReq, handler func() error) vOut {
			var opts []Option
			if r.Extractor {
				opts = append(opts, WithResourceExtractor(func(*gear.Context) string { return "custom-gear" }))
			}
			if r.Fallback {
				opts = append(opts, WithBlockFallback(func(c *gear.Context) error { return c.End(http.StatusBadRequest, []byte("fallback")) }))
			}
			app := gear.New()
			router := gear.NewRouter()
			router.Use(SentinelMiddleware(opts...))
			router.Handle("GET", "/ping/:id", func(c *gear.Context) error {
				if err := handler(); err != nil {
					return c.End(http.StatusBadGateway, []byte("err"))
				}
				return c.End(http.StatusOK, []byte("pong"))
			})
			app.UseHandler(router)
			w := httptest.NewRecorder()
			app.ServeHTTP(w, httptest.NewRequest("GET", "/ping/7", nil))
			return vOut{Status: w.Code, Body: w.Body.String()}
		},
		Rejected: vHTTPRejected})
}
