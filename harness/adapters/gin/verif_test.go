package gin

import (
	"net/http"
	"net/http/httptest"
	"testing"

	"github.com/gin-gonic/gin"
)

var ginRouters int

func TestVerifGinMiddleware(t *testing.T) {
	gin.SetMode(gin.ReleaseMode)
	vRunDriver(t, vDriver{Name: "gin.SentinelMiddleware", DefaultRes: "GET:/ping/:id", AltRes: "GET:/other", CustomRes: "custom-gin", HasFallback: true, CanPanic: true,
		Run: func(r vReq, handler func() error) vOut {
			var opts []Option
			if r.Extractor {
				opts = append(opts, WithResourceExtractor(func(*gin.Context) string { return "custom-gin" }))
			}
			if r.Fallback {
				opts = append(opts, WithBlockFallback(func(c *gin.Context) { c.AbortWithStatusJSON(http.StatusBadRequest, "fallback") }))
			}
			router := gin.New()
			if ginRouters++; ginRouters%2 == 0 { // every other engine also carries an engine-wide guard in front (another resource, never blocked)
				router.Use(SentinelMiddleware(WithResourceExtractor(func(*gin.Context) string { return "gin-engine-wide-guard" })))
			}
			panicked := false
			var pv interface{}
			router.Use(gin.CustomRecovery(func(c *gin.Context, v interface{}) { panicked, pv = true, v; c.AbortWithStatus(http.StatusInternalServerError) }))
			router.Use(SentinelMiddleware(opts...))
			router.GET("/ping/:id", func(c *gin.Context) {
				if err := handler(); err != nil {
					c.String(http.StatusBadGateway, "err")
					return
				}
				c.String(http.StatusOK, "pong")
			})
			w := httptest.NewRecorder()
			router.ServeHTTP(w, httptest.NewRequest("GET", "/ping/7", nil))
			return vOut{Status: w.Code, Body: w.Body.String(), Panicked: panicked, PanicVal: pv}
		},
		Instance: func(ext, fb bool) func(func() error) vOut {
			var opts []Option
			if ext {
				opts = append(opts, WithResourceExtractor(func(*gin.Context) string { return "custom-gin" }))
			}
			if fb {
				opts = append(opts, WithBlockFallback(func(c *gin.Context) { c.AbortWithStatusJSON(http.StatusBadRequest, "fallback") }))
			}
			hs := &vHandlers{}
			type flags struct {
				panicked bool
				pv       interface{}
			}
			var cur []*flags
			router := gin.New()
			router.Use(gin.CustomRecovery(func(c *gin.Context, v interface{}) {
				f := cur[len(cur)-1]
				f.panicked, f.pv = true, v
				c.AbortWithStatus(http.StatusInternalServerError)
			}))
			if ginRouters++; ginRouters%2 == 0 {
				router.Use(SentinelMiddleware(WithResourceExtractor(func(*gin.Context) string { return "gin-engine-wide-guard" })))
			}
			router.Use(SentinelMiddleware(opts...)) // ONE middleware value for all requests of the combination
			router.GET("/ping/:id", func(c *gin.Context) {
				if err := hs.call(); err != nil {
					c.String(http.StatusBadGateway, "err")
					return
				}
				c.String(http.StatusOK, "pong")
			})
			router.GET("/other", func(c *gin.Context) { // a second route behind the same middleware value
				if err := hs.call(); err != nil {
					c.String(http.StatusBadGateway, "err")
					return
				}
				c.String(http.StatusOK, "pong")
			})
			return func(h func() error) (out vOut) {
				f := &flags{}
				cur = append(cur, f)
				defer func() { cur = cur[:len(cur)-1] }()
				hs.with(h, func() {
					w := httptest.NewRecorder()
					path := "/ping/7"
					if vAlt {
						path = "/other"
					}
					router.ServeHTTP(w, httptest.NewRequest("GET", path, nil))
					out = vOut{Status: w.Code, Body: w.Body.String(), Panicked: f.panicked, PanicVal: f.pv}
				})
				return out
			}
		},
		Rejected: func(o vOut, fallback bool) string {
			if fallback && o.Status != http.StatusBadRequest {
				return "the configured fallback was not produced (status " + http.StatusText(o.Status) + ")"
			}
			if !fallback && o.Status != http.StatusTooManyRequests {
				return "default rejection is 429, got " + http.StatusText(o.Status)
			}
			return ""
		}})
}
