package go_zero

import (
	"net/http"
	"net/http/httptest"
	"testing"
)

func serve(h http.HandlerFunc) vOut {
	w := httptest.NewRecorder()
	path := "/ping/7"
	if vAlt {
		path = "/ping/8" // the same route /ping/:id, another request
	}
	h(w, httptest.NewRequest("GET", path, nil))
	return vOut{Status: w.Code, Body: w.Body.String()}
}

func TestVerifGoZeroGlobal(t *testing.T) {
	vRunDriver(t, vDriver{Name: "go-zero.SentinelMiddleware", DefaultRes: "GET:/ping/7", AltRes: "GET:/ping/8", CustomRes: "custom-gozero", HasFallback: true, CanPanic: true,
		Run: func(r vReq, handler func() error) vOut {
			var opts []Option
			if r.Extractor {
				opts = append(opts, WithResourceExtractor(func(*http.Request) string { return "custom-gozero" }))
			}
			if r.Fallback {
				opts = append(opts, WithBlockFallback(func(*http.Request) (int, string) { return http.StatusBadRequest, "fallback" }))
			}
			return serve(SentinelMiddleware(opts...)(func(w http.ResponseWriter, _ *http.Request) {
				if err := handler(); err != nil {
					http.Error(w, "err", http.StatusBadGateway)
					return
				}
				w.Write([]byte("pong"))
			}))
		},
		Instance: func(ext, fb bool) func(func() error) vOut {
			var opts []Option
			if ext {
				opts = append(opts, WithResourceExtractor(func(*http.Request) string { return "custom-gozero" }))
			}
			if fb {
				opts = append(opts, WithBlockFallback(func(*http.Request) (int, string) { return http.StatusBadRequest, "fallback" }))
			}
			hs := &vHandlers{}
			wrapped := SentinelMiddleware(opts...)(func(w http.ResponseWriter, _ *http.Request) { // wrapped ONCE, as go-zero does per route
				if err := hs.call(); err != nil {
					http.Error(w, "err", http.StatusBadGateway)
					return
				}
				w.Write([]byte("pong"))
			})
			return func(h func() error) (out vOut) {
				hs.with(h, func() { out = serve(wrapped) })
				return out
			}
		},
		Rejected: vHTTPRejected})
}

func TestVerifGoZeroRouting(t *testing.T) {
	vRunDriver(t, vDriver{Name: "go-zero.SentinelRouteMiddleware.Handle", DefaultRes: "GET:/ping/7", AltRes: "GET:/ping/8", CanPanic: true,
		Run: func(r vReq, handler func() error) vOut {
			return serve(NewSentinelRouteMiddleware().Handle(func(w http.ResponseWriter, _ *http.Request) {
				if err := handler(); err != nil {
					http.Error(w, "err", http.StatusBadGateway)
					return
				}
				w.Write([]byte("pong"))
			}))
		},
		Instance: func(ext, fb bool) func(func() error) vOut {
			hs := &vHandlers{}
			wrapped := NewSentinelRouteMiddleware().Handle(func(w http.ResponseWriter, _ *http.Request) { // wrapped ONCE
				if err := hs.call(); err != nil {
					http.Error(w, "err", http.StatusBadGateway)
					return
				}
				w.Write([]byte("pong"))
			})
			return func(h func() error) (out vOut) {
				hs.with(h, func() { out = serve(wrapped) })
				return out
			}
		},
		Rejected: vHTTPRejected})
}
