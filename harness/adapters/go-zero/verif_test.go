package go_zero

import (
	"net/http"
	"net/http/httptest"
	"testing"
)

func serve(h http.HandlerFunc) vOut {
	w := httptest.NewRecorder()
	h(w, httptest.NewRequest("GET", "/ping/7", nil))
	return vOut{Status: w.Code, Body: w.Body.String()}
}

func TestVerifGoZeroGlobal(t *testing.T) {
	vRunDriver(t, vDriver{Name: "go-zero.SentinelMiddleware", DefaultRes: "GET:/ping/7", CustomRes: "custom-gozero", HasFallback: true, CanPanic: true,
		Run: func(r vReq, handler func() error) vOut {
			var opts []Option
			if r.Extractor {
				opts = append(opts, WithResourceExtractor(func(*http.Request) string { return "custom-gozero" }))
			}
			if r.Fallback {
				opts = append(opts, WithBlockFallback(func(*http.Request) (int, string) { return http.StatusBadRequest, "fallback" }))
			}
			return serve(SentinelMiddleware(opts...)(func(w http.ResponseWriter, _ *http.Request) {
				if err := handler(); err != nil {
					http.Error(w, "err", http.StatusBadGateway)
					return
				}
				w.Write([]byte("pong"))
			}))
		},
		Instance: func(ext, fb bool) func(func() error) vOut {
			var opts []Option
			if ext {
				opts = append(opts, WithResourceExtractor(func(*http.Request) string { return "custom-gozero" }))
			}
			if fb {
				opts = append(opts, WithBlockFallback(func(*http.Request) (int, string) { return http.StatusBadRequest, "fallback" }))
			}
			mw := SentinelMiddleware(opts...) // ONE middleware value
			return func(h func() error) vOut {
				return serve(mw(func(w http.ResponseWriter, _ *http.Request) {
					if err := h(); err != nil {
						http.Error(w, "err", http.StatusBadGateway)
						return
					}
					w.Write([]byte("pong"))
				}))
			}
		},
		Rejected: vHTTPRejected})
}

func TestVerifGoZeroRouting(t *testing.T) {
	vRunDriver(t, vDriver{Name: "go-zero.SentinelRouteMiddleware.Handle", DefaultRes: "GET:/ping/7", CanPanic: true,
		Run: func(r vReq, handler func() error) vOut {
			return serve(NewSentinelRouteMiddleware().Handle(func(w http.ResponseWriter, _ *http.Request) {
				if err := handler(); err != nil {
					http.Error(w, "err", http.StatusBadGateway)
					return
				}
				w.Write([]byte("pong"))
			}))
		},
		Instance: func(ext, fb bool) func(func() error) vOut {
			mw := NewSentinelRouteMiddleware() // ONE middleware value
			return func(h func() error) vOut {
				return serve(mw.Handle(func(w http.ResponseWriter, _ *http.Request) {
					if err := h(); err != nil {
						http.Error(w, "err", http.StatusBadGateway)
						return
					}
					w.Write([]byte("pong"))
				}))
			}
		},
		Rejected: vHTTPRejected})
}
