package fiber

import (
	"net/http"
	"net/http/httptest"
	"testing"

	"github.com/gofiber/fiber/v2"
)

func TestVerifFiberMiddleware(t *testing.T) {
	vRunDriver(t, vDriver{Name: "fiber.SentinelMiddleware", DefaultRes: "GET:/ping/7", CustomRes: "custom-fiber", HasFallback: true, CanPanic: true,
		Run: func(r vReq, handler func() error) vOut {
			var opts []Option
			if r.Extractor {
				opts = append(opts, WithResourceExtractor(func(*fiber.Ctx) string { return "custom-fiber" }))
			}
			if r.Fallback {
				opts = append(opts, WithBlockFallback(func(c *fiber.Ctx) error { return c.Status(http.StatusBadRequest).SendString("fallback") }))
			}
			app := fiber.New(fiber.Config{DisableStartupMessage: true})
			panicked := false
			var pv interface{}
			app.Use(func(c *fiber.Ctx) (err error) {
				defer func() {
					if v := recover(); v != nil {
						panicked, pv = true, v
						err = c.SendStatus(http.StatusInternalServerError)
					}
				}()
				return c.Next()
			})
			app.Use(SentinelMiddleware(opts...))
			app.Get("/ping/:id", func(c *fiber.Ctx) error {
				if err := handler(); err != nil {
					return c.Status(http.StatusBadGateway).SendString("err")
				}
				return c.SendString("pong")
			})
			resp, err := app.Test(httptest.NewRequest("GET", "/ping/7", nil), -1)
			if err != nil {
				return vOut{Err: err}
			}
			return vOut{Status: resp.StatusCode, Panicked: panicked, PanicVal: pv}
		},
		Rejected: vHTTPRejected})
}
