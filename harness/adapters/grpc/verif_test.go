package grpc

import (
	"context"
	"errors"
	"testing"

	"github.com/alibaba/sentinel-golang/core/base"
	"google.golang.org/grpc"
)

var errFallback = errors.New("fallback")

func rpcRejected(o vOut, fallback bool) string {
	if fallback {
		if o.Err != errFallback {
			return "the configured fallback was not produced (returned " + errText(o.Err) + ")"
		}
		return ""
	}
	if _, ok := o.Err.(*base.BlockError); !ok {
		return "the default rejection is the block error, got " + errText(o.Err)
	}
	return ""
}

func errText(err error) string {
	if err == nil {
		return "<nil>"
	}
	return err.Error()
}

func TestVerifGrpcUnaryServer(t *testing.T) {
	vRunDriver(t, vDriver{Name: "grpc.NewUnaryServerInterceptor", DefaultRes: "/svc/Method", CustomRes: "custom-grpc-us", HasFallback: true, TracesError: true, CanPanic: true,
		Run: func(r vReq, handler func() error) vOut {
			var opts []Option
			if r.Extractor {
				opts = append(opts, WithUnaryServerResourceExtractor(func(context.Context, interface{}, *grpc.UnaryServerInfo) string { return "custom-grpc-us" }))
			}
			if r.Fallback {
				opts = append(opts, WithUnaryServerBlockFallback(func(context.Context, interface{}, *grpc.UnaryServerInfo, *base.BlockError) (interface{}, error) {
					return nil, errFallback
				}))
			}
			_, err := NewUnaryServerInterceptor(opts...)(vCtx(), "req", &grpc.UnaryServerInfo{FullMethod: "/svc/Method"},
				func(context.Context, interface{}) (interface{}, error) { return "resp", handler() })
			return vOut{Err: err}
		},
		Instance: func(ext, fb bool) func(func() error) vOut {
			var opts []Option
			if ext {
				opts = append(opts, WithUnaryServerResourceExtractor(func(context.Context, interface{}, *grpc.UnaryServerInfo) string { return "custom-grpc-us" }))
			}
			if fb {
				opts = append(opts, WithUnaryServerBlockFallback(func(context.Context, interface{}, *grpc.UnaryServerInfo, *base.BlockError) (interface{}, error) {
					return nil, errFallback
				}))
			}
			ic := NewUnaryServerInterceptor(opts...)
			return func(h func() error) vOut {
				_, err := ic(vCtx(), "req", &grpc.UnaryServerInfo{FullMethod: "/svc/Method"}, func(context.Context, interface{}) (interface{}, error) { return "resp", h() })
				return vOut{Err: err}
			}
		}, Rejected: rpcRejected})
}

func TestVerifGrpcStreamServer(t *testing.T) {
	vRunDriver(t, vDriver{Name: "grpc.NewStreamServerInterceptor", DefaultRes: "/svc/Stream", CustomRes: "custom-grpc-ss", HasFallback: true, TracesError: true, CanPanic: true,
		Run: func(r vReq, handler func() error) vOut {
			var opts []Option
			if r.Extractor {
				opts = append(opts, WithStreamServerResourceExtractor(func(interface{}, grpc.ServerStream, *grpc.StreamServerInfo) string { return "custom-grpc-ss" }))
			}
			if r.Fallback {
				opts = append(opts, WithStreamServerBlockFallback(func(interface{}, grpc.ServerStream, *grpc.StreamServerInfo, *base.BlockError) error { return errFallback }))
			}
			err := NewStreamServerInterceptor(opts...)(nil, nil, &grpc.StreamServerInfo{FullMethod: "/svc/Stream"},
				func(interface{}, grpc.ServerStream) error { return handler() })
			return vOut{Err: err}
		},
		Instance: func(ext, fb bool) func(func() error) vOut {
			var opts []Option
			if ext {
				opts = append(opts, WithStreamServerResourceExtractor(func(interface{}, grpc.ServerStream, *grpc.StreamServerInfo) string { return "custom-grpc-ss" }))
			}
			if fb {
				opts = append(opts, WithStreamServerBlockFallback(func(interface{}, grpc.ServerStream, *grpc.StreamServerInfo, *base.BlockError) error { return errFallback }))
			}
			ic := NewStreamServerInterceptor(opts...)
			return func(h func() error) vOut {
				return vOut{Err: ic(nil, nil, &grpc.StreamServerInfo{FullMethod: "/svc/Stream"}, func(interface{}, grpc.ServerStream) error { return h() })}
			}
		}, Rejected: rpcRejected})
}

func TestVerifGrpcUnaryClient(t *testing.T) {
	vRunDriver(t, vDriver{Name: "grpc.NewUnaryClientInterceptor", DefaultRes: "/svc/ClientMethod", CustomRes: "custom-grpc-uc", HasFallback: true, TracesError: true, CanPanic: true,
		Run: func(r vReq, handler func() error) vOut {
			var opts []Option
			if r.Extractor {
				opts = append(opts, WithUnaryClientResourceExtractor(func(context.Context, string, interface{}, *grpc.ClientConn) string { return "custom-grpc-uc" }))
			}
			if r.Fallback {
				opts = append(opts, WithUnaryClientBlockFallback(func(context.Context, string, interface{}, *grpc.ClientConn, *base.BlockError) error { return errFallback }))
			}
			err := NewUnaryClientInterceptor(opts...)(vCtx(), "/svc/ClientMethod", "req", "reply", nil,
				func(context.Context, string, interface{}, interface{}, *grpc.ClientConn, ...grpc.CallOption) error { return handler() })
			return vOut{Err: err}
		},
		Instance: func(ext, fb bool) func(func() error) vOut {
			var opts []Option
			if ext {
				opts = append(opts, WithUnaryClientResourceExtractor(func(context.Context, string, interface{}, *grpc.ClientConn) string { return "custom-grpc-uc" }))
			}
			if fb {
				opts = append(opts, WithUnaryClientBlockFallback(func(context.Context, string, interface{}, *grpc.ClientConn, *base.BlockError) error { return errFallback }))
			}
			ic := NewUnaryClientInterceptor(opts...)
			return func(h func() error) vOut {
				return vOut{Err: ic(vCtx(), "/svc/ClientMethod", "req", "reply", nil,
					func(context.Context, string, interface{}, interface{}, *grpc.ClientConn, ...grpc.CallOption) error { return h() })}
			}
		}, Rejected: rpcRejected})
}

func TestVerifGrpcStreamClient(t *testing.T) {
	vRunDriver(t, vDriver{Name: "grpc.NewStreamClientInterceptor", DefaultRes: "/svc/ClientStream", CustomRes: "custom-grpc-sc", HasFallback: true, TracesError: true, CanPanic: true,
		Run: func(r vReq, handler func() error) vOut {
			var opts []Option
			if r.Extractor {
				opts = append(opts, WithStreamClientResourceExtractor(func(context.Context, *grpc.StreamDesc, *grpc.ClientConn, string) string { return "custom-grpc-sc" }))
			}
			if r.Fallback {
				opts = append(opts, WithStreamClientBlockFallback(func(context.Context, *grpc.StreamDesc, *grpc.ClientConn, string, *base.BlockError) (grpc.ClientStream, error) {
					return nil, errFallback
				}))
			}
			_, err := NewStreamClientInterceptor(opts...)(vCtx(), &grpc.StreamDesc{}, nil, "/svc/ClientStream",
				func(context.Context, *grpc.StreamDesc, *grpc.ClientConn, string, ...grpc.CallOption) (grpc.ClientStream, error) { return nil, handler() })
			return vOut{Err: err}
		},
		Instance: func(ext, fb bool) func(func() error) vOut {
			var opts []Option
			if ext {
				opts = append(opts, WithStreamClientResourceExtractor(func(context.Context, *grpc.StreamDesc, *grpc.ClientConn, string) string { return "custom-grpc-sc" }))
			}
			if fb {
				opts = append(opts, WithStreamClientBlockFallback(func(context.Context, *grpc.StreamDesc, *grpc.ClientConn, string, *base.BlockError) (grpc.ClientStream, error) {
					return nil, errFallback
				}))
			}
			ic := NewStreamClientInterceptor(opts...)
			return func(h func() error) vOut {
				_, err := ic(vCtx(), &grpc.StreamDesc{}, nil, "/svc/ClientStream",
					func(context.Context, *grpc.StreamDesc, *grpc.ClientConn, string, ...grpc.CallOption) (grpc.ClientStream, error) { return nil, h() })
				return vOut{Err: err}
			}
		}, Rejected: rpcRejected})
}
