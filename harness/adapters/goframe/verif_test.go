package goframe

import (
	"fmt"
	"net/http"
	"net/http/httptest"
	"testing"

	"github.com/gogf/gf/v2/frame/g"
	"github.com/gogf/gf/v2/net/ghttp"
)

var curHandler func() error
var servers = map[string]*ghttp.Server{}

// one ghttp server per option combination (servers are named singletons and bind their routes once)
func serverFor(r vReq) *ghttp.Server {
	name := fmt.Sprintf("verif-%v-%v", r.Extractor, r.Fallback)
	if s, ok := servers[name]; ok {
		return s
	}
	var opts []Option
	if r.Extractor {
		opts = append(opts, WithResourceExtractor(func(*ghttp.Request) string { return "custom-goframe" }))
	}
	if r.Fallback {
		opts = append(opts, WithBlockFallback(func(r *ghttp.Request) { r.Response.WriteStatus(http.StatusBadRequest, "fallback") }))
	}
	s := g.Server(name)
	s.SetDumpRouterMap(false)
	s.SetAccessLogEnabled(false)
	s.SetErrorLogEnabled(false)
	s.SetPort(0)
	s.Group("/", func(group *ghttp.RouterGroup) {
		group.Middleware(SentinelMiddleware(opts...))
		group.ALL("/ping/:id", func(r *ghttp.Request) {
			if err := curHandler(); err != nil {
				r.Response.WriteStatus(http.StatusBadGateway, "err")
				return
			}
			r.Response.Write("pong")
		})
	})
	s.Start()
	servers[name] = s
	return s
}

func TestVerifGoframeMiddleware(t *testing.T) {
	vRunDriver(t, vDriver{Name: "goframe.SentinelMiddleware", DefaultRes: "GET:/ping/7", CustomRes: "custom-goframe", HasFallback: true, CanPanic: true,
		Run: func(r vReq, handler func() error) vOut {
			curHandler = handler
			w := httptest.NewRecorder()
			serverFor(r).ServeHTTP(w, httptest.NewRequest("GET", "/ping/7", nil))
			return vOut{Status: w.Code, Body: w.Body.String()}
		},
		Rejected: vHTTPRejected})
}
