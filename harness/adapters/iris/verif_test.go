package iris

import (
	"net/http"
	"net/http/httptest"
	"testing"

	"github.com/kataras/iris/v12"
)

func TestVerifIrisMiddleware(t *testing.T) {
	vRunDriver(t, vDriver{Name: "iris.SentinelMiddleware", DefaultRes: "GET:/ping/7", CustomRes: "custom-iris", HasFallback: true, CanPanic: true, HasVariant: true,
		Run: func(r vReq, handler func() error) vOut {
			var opts []Option
			if r.Extractor {
				opts = append(opts, WithResourceExtractor(func(iris.Context) string { return "custom-iris" }))
			}
			if r.Fallback {
				opts = append(opts, WithBlockFallback(func(c iris.Context) { c.StatusCode(http.StatusBadRequest); c.StopExecution() }))
			}
			app := iris.New()
			app.Logger().SetLevel("disable")
			if r.Variant {
				// Forced execution rules: the next handler runs unless execution was stopped. (This iris version wraps a party's
				// middleware in place once per registered route: on the first route a middleware's Next call is swallowed, on later
				// routes StopExecution is lost, with any middleware. The route under test is the first one, where a rejection that
				// stops execution keeps the request away from the handler.)
				vHandlerAfterMiddleware = true
				app.SetExecutionRules(iris.ExecutionRules{Begin: iris.ExecutionOptions{Force: true}, Main: iris.ExecutionOptions{Force: true}, Done: iris.ExecutionOptions{Force: true}})
			}
			panicked := false
			var pv interface{}
			if !r.Variant { // (a recovering middleware has to call Next itself, which forced rules swallow)
				app.Use(func(c iris.Context) {
					defer func() {
						if v := recover(); v != nil {
							panicked, pv = true, v
							c.StopWithStatus(http.StatusInternalServerError)
						}
					}()
					c.Next()
				})
			}
			app.Use(SentinelMiddleware(opts...))
			app.Get("/ping/{id}", func(c iris.Context) {
				if err := handler(); err != nil {
					c.StatusCode(http.StatusBadGateway)
					return
				}
				c.WriteString("pong")
			})
			if err := app.Build(); err != nil {
				return vOut{Err: err}
			}
			w := httptest.NewRecorder()
			app.ServeHTTP(w, httptest.NewRequest("GET", "/ping/7", nil))
			return vOut{Status: w.Code, Body: w.Body.String(), Panicked: panicked, PanicVal: pv}
		},
		Rejected: vHTTPRejected})
}
