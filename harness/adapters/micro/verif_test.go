package micro

import (
	"context"
	"errors"
	"testing"

	"github.com/alibaba/sentinel-golang/core/base"
	"github.com/micro/go-micro/v2/client"
	"github.com/micro/go-micro/v2/server"
)

var errFallback = errors.New("fallback")

func rejected(o vOut, fallback bool) string {
	if fallback {
		if o.Err != errFallback {
			return "the configured fallback was not produced"
		}
		return ""
	}
	if _, ok := o.Err.(*base.BlockError); !ok {
		if o.Err == nil {
			return "the default rejection is the block error, got <nil>"
		}
		return "the default rejection is the block error, got " + o.Err.Error()
	}
	return ""
}

type fakeServerReq struct{ server.Request }

func (fakeServerReq) Method() string  { return "Verif.Handle" }
func (fakeServerReq) Service() string { return "verif.svc" }

func TestVerifMicroHandlerWrapper(t *testing.T) {
	vRunDriver(t, vDriver{Name: "micro.NewHandlerWrapper", DefaultRes: "Verif.Handle", CustomRes: "custom-micro-h", HasFallback: true, TracesError: true, CanPanic: true,
		Run: func(r vReq, handler func() error) vOut {
			var opts []Option
			if r.Extractor {
				opts = append(opts, WithServerResourceExtractor(func(context.Context, server.Request) string { return "custom-micro-h" }))
			}
			if r.Fallback {
				opts = append(opts, WithServerBlockFallback(func(context.Context, server.Request, *base.BlockError) error { return errFallback }))
			}
			err := NewHandlerWrapper(opts...)(func(context.Context, server.Request, interface{}) error { return handler() })(vCtx(), fakeServerReq{}, nil)
			return vOut{Err: err}
		},
		Instance: func(ext, fb bool) func(func() error) vOut {
			var opts []Option
			if ext {
				opts = append(opts, WithServerResourceExtractor(func(context.Context, server.Request) string { return "custom-micro-h" }))
			}
			if fb {
				opts = append(opts, WithServerBlockFallback(func(context.Context, server.Request, *base.BlockError) error { return errFallback }))
			}
			w := NewHandlerWrapper(opts...)
			return func(h func() error) vOut {
				return vOut{Err: w(func(context.Context, server.Request, interface{}) error { return h() })(vCtx(), fakeServerReq{}, nil)}
			}
		}, Rejected: rejected})
}

type fakeStream struct {
	server.Stream
	sent []interface{}
}

func (s *fakeStream) Request() server.Request     { return fakeServerReq{} }
func (s *fakeStream) Send(v interface{}) error     { s.sent = append(s.sent, v); return nil }
func (s *fakeStream) Context() context.Context     { return vCtx() }

type fallbackStream struct{ server.Stream }

// The stream wrapper cannot wrap the downstream handler: it admits or rejects the stream and exits the
// entry at once (by design of the framework); "the handler" is whatever uses the returned stream.
func TestVerifMicroStreamWrapper(t *testing.T) {
	vRunDriver(t, vDriver{Name: "micro.NewStreamWrapper", DefaultRes: "Verif.Handle", CustomRes: "custom-micro-s", HasFallback: true, CanPanic: false,
		Run: func(r vReq, handler func() error) vOut {
			var opts []Option
			if r.Extractor {
				opts = append(opts, WithStreamServerResourceExtractor(func(server.Stream) string { return "custom-micro-s" }))
			}
			if r.Fallback {
				opts = append(opts, WithStreamServerBlockFallback(func(server.Stream, *base.BlockError) server.Stream { return fallbackStream{} }))
			}
			in := &fakeStream{}
			out := NewStreamWrapper(opts...)(in)
			if _, isFallback := out.(fallbackStream); isFallback {
				return vOut{Err: errFallback}
			}
			if len(in.sent) > 0 { // the default rejection sends the block error on the stream
				if be, ok := in.sent[0].(*base.BlockError); ok {
					return vOut{Err: be}
				}
			}
			return vOut{Err: handler()}
		}, Rejected: rejected})
}

type fakeClient struct {
	client.Client
	handler func() error
}

func (c fakeClient) Call(context.Context, client.Request, interface{}, ...client.CallOption) error {
	return c.handler()
}
func (c fakeClient) Stream(context.Context, client.Request, ...client.CallOption) (client.Stream, error) {
	return nil, c.handler()
}

func clientRun(stream, outlierPath bool) func(r vReq, handler func() error) vOut {
	return func(r vReq, handler func() error) vOut {
		var opts []Option
		// only the options of the call kind under test are set (a wrapper configured for streams only, or for calls only)
		if r.Extractor && stream {
			opts = append(opts, WithStreamClientResourceExtractor(func(context.Context, client.Request) string { return "custom-micro-c" }))
		} else if r.Extractor {
			opts = append(opts, WithClientResourceExtractor(func(context.Context, client.Request) string { return "custom-micro-c" }))
		}
		if r.Fallback && stream {
			opts = append(opts, WithStreamClientBlockFallback(func(context.Context, client.Request, *base.BlockError) (client.Stream, error) { return nil, errFallback }))
		} else if r.Fallback {
			opts = append(opts, WithClientBlockFallback(func(context.Context, client.Request, *base.BlockError) error { return errFallback }))
		}
		if outlierPath {
			opts = append(opts, WithEnableOutlier(func(context.Context) bool { return true }))
		}
		c := NewClientWrapper(opts...)(fakeClient{handler: handler})
		req := client.NewClient().NewRequest("verif.svc", "Verif.Call", nil)
		if stream {
			_, err := c.Stream(vCtx(), req)
			return vOut{Err: err}
		}
		return vOut{Err: c.Call(vCtx(), req, nil)}
	}
}

func clientInstance(stream, outlierPath bool) func(ext, fb bool) func(func() error) vOut {
	return func(ext, fb bool) func(func() error) vOut {
		var opts []Option
		if ext && stream {
			opts = append(opts, WithStreamClientResourceExtractor(func(context.Context, client.Request) string { return "custom-micro-c" }))
		} else if ext {
			opts = append(opts, WithClientResourceExtractor(func(context.Context, client.Request) string { return "custom-micro-c" }))
		}
		if fb && stream {
			opts = append(opts, WithStreamClientBlockFallback(func(context.Context, client.Request, *base.BlockError) (client.Stream, error) { return nil, errFallback }))
		} else if fb {
			opts = append(opts, WithClientBlockFallback(func(context.Context, client.Request, *base.BlockError) error { return errFallback }))
		}
		if outlierPath {
			opts = append(opts, WithEnableOutlier(func(context.Context) bool { return true }))
		}
		hs := &vHandlers{}
		c := NewClientWrapper(opts...)(fakeClient{handler: hs.call}) // ONE wrapped client for all requests of the combination
		return func(h func() error) (out vOut) {
			hs.with(h, func() {
				req := client.NewClient().NewRequest("verif.svc", "Verif.Call", nil)
				if stream {
					_, err := c.Stream(vCtx(), req)
					out = vOut{Err: err}
					return
				}
				out = vOut{Err: c.Call(vCtx(), req, nil)}
			})
			return out
		}
	}
}

func TestVerifMicroClientCall(t *testing.T) {
	vRunDriver(t, vDriver{Name: "micro.clientWrapper.Call", DefaultRes: "Verif.Call", CustomRes: "custom-micro-c", HasFallback: true, TracesError: true, CanPanic: true,
		Run: clientRun(false, false), Instance: clientInstance(false, false), Rejected: rejected})
}

func TestVerifMicroClientStream(t *testing.T) {
	vRunDriver(t, vDriver{Name: "micro.clientWrapper.Stream", DefaultRes: "Verif.Call", CustomRes: "custom-micro-c", HasFallback: true, TracesError: true, CanPanic: true,
		Run: clientRun(true, false), Instance: clientInstance(true, false), Rejected: rejected})
}

func TestVerifMicroClientCallOutlier(t *testing.T) {
	vRunDriver(t, vDriver{Name: "micro.clientWrapper.Call(outlier)", OwnChain: true, DefaultRes: "verif.svc", HasFallback: true, CanPanic: true,
		Run: clientRun(false, true), Instance: clientInstance(false, true), Rejected: rejected})
}
