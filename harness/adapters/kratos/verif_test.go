package kratos

import (
	"context"
	"errors"
	"testing"

	"github.com/alibaba/sentinel-golang/core/base"
	"github.com/go-kratos/kratos/v2/transport"
)

type fakeHeader map[string][]string

func (h fakeHeader) Get(k string) string      { if v := h[k]; len(v) > 0 { return v[0] }; return "" }
func (h fakeHeader) Set(k, v string)          { h[k] = []string{v} }
func (h fakeHeader) Add(k, v string)          { h[k] = append(h[k], v) }
func (h fakeHeader) Keys() []string           { var ks []string; for k := range h { ks = append(ks, k) }; return ks }
func (h fakeHeader) Values(k string) []string { return h[k] }

type fakeTransport struct{}

func (fakeTransport) Kind() transport.Kind            { return transport.KindGRPC }
func (fakeTransport) Endpoint() string                { return "discovery:///verif-svc" }
func (fakeTransport) Operation() string               { return "/verif.Svc/Op" }
func (fakeTransport) RequestHeader() transport.Header { return fakeHeader{} }
func (fakeTransport) ReplyHeader() transport.Header   { return fakeHeader{} }

var errFallback = errors.New("fallback")

func rejected(o vOut, fallback bool) string {
	if fallback {
		if o.Err != errFallback {
			return "the configured fallback was not produced"
		}
		return ""
	}
	if _, ok := o.Err.(*base.BlockError); !ok {
		if o.Err == nil {
			return "the default rejection is the block error, got <nil>"
		}
		return "the default rejection is the block error, got " + o.Err.Error()
	}
	return ""
}

func run(outlierPath bool) func(r vReq, handler func() error) vOut {
	return func(r vReq, handler func() error) vOut {
		var opts []Option
		if r.Extractor {
			opts = append(opts, WithResourceExtract(func(context.Context, interface{}) string { return "custom-kratos" }))
		}
		if r.Fallback {
			opts = append(opts, WithBlockFallback(func(context.Context, interface{}, error) (interface{}, error) { return nil, errFallback }))
		}
		if outlierPath {
			opts = append(opts, WithEnableOutlier(func(context.Context) bool { return true }))
		}
		ctx := transport.NewClientContext(vCtx(), fakeTransport{})
		_, err := SentinelClientMiddleware(opts...)(func(context.Context, interface{}) (interface{}, error) { return "resp", handler() })(ctx, "req")
		return vOut{Err: err}
	}
}

func instance(outlierPath bool) func(ext, fb bool) func(func() error) vOut {
	return func(ext, fb bool) func(func() error) vOut {
		var opts []Option
		if ext {
			opts = append(opts, WithResourceExtract(func(context.Context, interface{}) string { return "custom-kratos" }))
		}
		if fb {
			opts = append(opts, WithBlockFallback(func(context.Context, interface{}, error) (interface{}, error) { return nil, errFallback }))
		}
		if outlierPath {
			opts = append(opts, WithEnableOutlier(func(context.Context) bool { return true }))
		}
		mw := SentinelClientMiddleware(opts...)
		return func(h func() error) vOut {
			ctx := transport.NewClientContext(vCtx(), fakeTransport{})
			_, err := mw(func(context.Context, interface{}) (interface{}, error) { return "resp", h() })(ctx, "req")
			return vOut{Err: err}
		}
	}
}

func TestVerifKratosClient(t *testing.T) {
	vRunDriver(t, vDriver{Name: "kratos.SentinelClientMiddleware", DefaultRes: "/verif.Svc/Op", CustomRes: "custom-kratos", HasFallback: true, TracesError: true, CanPanic: true,
		Run: run(false), Instance: instance(false), Rejected: rejected})
}

func TestVerifKratosClientOutlier(t *testing.T) {
	vRunDriver(t, vDriver{Name: "kratos.SentinelClientMiddleware(outlier)", OwnChain: true, DefaultRes: "verif-svc", HasFallback: true, CanPanic: true,
		Run: run(true), Instance: instance(true), Rejected: rejected})
}
