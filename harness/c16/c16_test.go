// C16: slot chain runs in order, short-circuits on first block, and fails open.
package c16

import (
	"errors"
	"fmt"
	"runtime"
	"sort"
	"strings"
	"testing"

	sentinel "github.com/alibaba/sentinel-golang/api"
	"github.com/alibaba/sentinel-golang/core/base"
	"pgregory.net/rapid"

	"verif/harness/hx"
)

func TestMain(m *testing.M) {
	runtime.GOMAXPROCS(1)
	hx.Main(m, "C16")
}

var log []string

type rule struct{ name string }

func (r *rule) String() string       { return r.name }
func (r *rule) ResourceName() string { return r.name }

// behaviours, looked up per entry through Input.Flag (scenario index)
const (
	bOK = iota
	bPanic
	bPassResult  // check: explicit pass result
	bBlockNew    // check: block with a freshly allocated result
	bBlockPooled // check: block by resetting the context's pooled result (what the library's own slots do)
	bShouldWait  // check: "should wait" result (not a block: the chain goes on to the later slots)
	bPanicPassed
	bPanicBlocked
	bPanicCompleted
	bDirtyNil // check: marks the context's pooled result as blocked (a dry run of a real rule check) but returns nil: a pass
)

type slot struct {
	kind  int // 0 prepare, 1 check, 2 stat
	name  string
	order uint32
}

var scen [][]int // scen[flag][slotIndex] = behaviour
var slotIdx map[string]int

func beh(ctx *base.EntryContext, s *slot) int { return scen[ctx.Input.Flag][slotIdx[s.name]] }

// boom panics with a value whose dynamic type depends on the slot: a string, an error, a runtime error (nil map
// write), an int or a struct - whatever a slot throws must be contained.
func boom(where string, s *slot) {
	switch slotIdx[s.name] % 5 {
	case 0:
		panic(where + " " + s.name)
	case 1:
		panic(errors.New(where + " " + s.name))
	case 2:
		var m map[string]int
		m[s.name] = 1
	case 3:
		panic(len(s.name))
	default:
		panic(struct{ where, name string }{where, s.name})
	}
}

func (s *slot) Order() uint32 { return s.order }
func (s *slot) Prepare(ctx *base.EntryContext) {
	log = append(log, "prep:"+s.name)
	if beh(ctx, s) == bPanic {
		boom("prep", s)
	}
}
func (s *slot) Check(ctx *base.EntryContext) *base.TokenResult {
	log = append(log, "check:"+s.name)
	switch beh(ctx, s) {
	case bPassResult:
		return base.NewTokenResultPass()
	case bShouldWait:
		return base.NewTokenResultShouldWait(0)
	case bBlockNew:
		return base.NewTokenResultBlockedWithCause(base.BlockType(10+len(s.name)), "msg-"+s.name, &rule{s.name}, s.name)
	case bBlockPooled:
		r := ctx.RuleCheckResult
		r.ResetToBlockedWithCause(base.BlockType(10+len(s.name)), "msg-"+s.name, &rule{s.name}, s.name)
		return r
	case bDirtyNil:
		ctx.RuleCheckResult.ResetToBlockedWithCause(base.BlockType(10+len(s.name)), "dry-run-"+s.name, &rule{s.name}, s.name)
		return nil
	case bPanic:
		boom("check", s)
	}
	return nil
}
func (s *slot) OnEntryPassed(ctx *base.EntryContext) {
	log = append(log, "passed:"+s.name)
	if beh(ctx, s) == bPanicPassed {
		boom("passed", s)
	}
}
func (s *slot) OnEntryBlocked(ctx *base.EntryContext, b *base.BlockError) {
	log = append(log, "blocked:"+s.name+":"+b.BlockMsg())
	if beh(ctx, s) == bPanicBlocked {
		boom("blocked", s)
	}
}
func (s *slot) OnCompleted(ctx *base.EntryContext) {
	log = append(log, "completed:"+s.name)
	if beh(ctx, s) == bPanicCompleted {
		boom("completed", s)
	}
}

type expect struct {
	entryLog   []string
	exitLog    []string
	panicked   bool
	blocker    *slot
	exitKnown  bool // exit log is fully determined (no panic anywhere)
	earlyPanic bool // the chain panicked in a prepare or rule-check slot: no statistic slot was told of a pass, so none
	// may be told of a completion (a completion for a pass that never was drives counters negative, cf. C01)
}

func TestChain(t *testing.T) {
	hx.Check(t, hx.N{Quick: 36000, Thorough: 400000}, func(t *rapid.T, c *hx.Case) {
		hx.Reset(hx.Epoch)
		// the EntryContext pool is shared by all chains of the process: take out whatever earlier cases left there so that a case is a function of its own draws only and a failure shrinks and replays
		sc := base.NewSlotChain()
		for i := 0; i < 64; i++ {
			sc.GetPooledContext()
		}
		var slots []*slot
		slotIdx = map[string]int{}
		n := rapid.IntRange(0, 12).Draw(t, "n")
		favour := -1
		if rapid.IntRange(0, 4).Draw(t, "large") == 0 { // long chains, mostly one kind of slot, many ties (sorting algorithms change behaviour with size)
			n = rapid.IntRange(13, 45).Draw(t, "nLarge")
			favour = rapid.IntRange(0, 2).Draw(t, "favour")
			if rapid.IntRange(0, 3).Draw(t, "huge") == 0 { // chains beyond any machine-word-sized bookkeeping (64 slots of one kind and more)
				n = rapid.IntRange(66, 140).Draw(t, "nHuge")
				favour = rapid.SampledFrom([]int{2, 2, 0, 1}).Draw(t, "favourHuge")
				c.Class("more-than-65-slots")
			}
		}
		for i := 0; i < n; i++ {
			kind := rapid.IntRange(0, 2).Draw(t, "kind")
			if favour >= 0 && rapid.IntRange(0, 3).Draw(t, "favoured") > 0 {
				kind = favour
			}
			s := &slot{kind: kind, name: fmt.Sprintf("s%d", i), order: uint32(rapid.SampledFrom([]uint64{0, 1, 1, 5, 5, 1000, 4294967295}).Draw(t, "order"))}
			slotIdx[s.name] = i
			switch s.kind {
			case 0:
				sc.AddStatPrepareSlot(s)
			case 1:
				sc.AddRuleCheckSlot(s)
			case 2:
				sc.AddStatSlot(s)
			}
			slots = append(slots, s)
			c.Op("slot %s kind=%d order=%d", s.name, s.kind, s.order)
		}
		byKind := func(k int) []*slot {
			var o []*slot
			for _, s := range slots {
				if s.kind == k {
					o = append(o, s)
				}
			}
			sort.SliceStable(o, func(i, j int) bool { return o[i].order < o[j].order })
			return o
		}
		collide := false
		for k := 0; k < 3; k++ {
			o := byKind(k)
			for i := 1; i < len(o); i++ {
				if o[i].order == o[i-1].order {
					collide = true
				}
			}
		}
		// scenarios: behaviours per slot, one scenario per entry
		nsc := rapid.IntRange(1, 4).Draw(t, "scenarios")
		scen = nil
		for k := 0; k < nsc; k++ {
			row := make([]int, n)
			for i, s := range slots {
				switch s.kind {
				case 0:
					row[i] = rapid.SampledFrom([]int{bOK, bOK, bOK, bOK, bPanic}).Draw(t, "beh")
					if n > 65 && rapid.IntRange(0, 39).Draw(t, "rarePanic") != 0 {
						row[i] = bOK
					}
				case 1:
					row[i] = rapid.SampledFrom([]int{bOK, bOK, bPassResult, bShouldWait, bBlockNew, bBlockPooled, bPanic, bDirtyNil}).Draw(t, "beh")
					if n > 65 && rapid.IntRange(0, 39).Draw(t, "rareBlock") != 0 {
						row[i] = bOK
					}
				case 2:
					row[i] = rapid.SampledFrom([]int{bOK, bOK, bOK, bOK, bPanicPassed, bPanicBlocked, bPanicCompleted}).Draw(t, "beh")
					if n > 65 && rapid.IntRange(0, 39).Draw(t, "rarePanic") != 0 {
						row[i] = bOK // in huge chains panics are rare, so that whole walks over all the statistic slots are common
					}
				}
			}
			scen = append(scen, row)
			c.Op("scenario %d: %v", k, row)
		}
		model := func(flag int) expect {
			var ex expect
			row := scen[flag]
			b := func(s *slot) int { return row[slotIdx[s.name]] }
			for _, s := range byKind(0) {
				ex.entryLog = append(ex.entryLog, "prep:"+s.name)
				if b(s) == bPanic {
					ex.panicked, ex.earlyPanic = true, true
					break
				}
			}
			if !ex.panicked {
				for _, s := range byKind(1) {
					ex.entryLog = append(ex.entryLog, "check:"+s.name)
					if b(s) == bPanic {
						ex.panicked, ex.earlyPanic = true, true
						break
					}
					if b(s) == bBlockNew || b(s) == bBlockPooled {
						ex.blocker = s
						break
					}
				}
			}
			if !ex.panicked {
				for _, s := range byKind(2) {
					if ex.blocker == nil {
						ex.entryLog = append(ex.entryLog, "passed:"+s.name)
						if b(s) == bPanicPassed {
							ex.panicked = true
							break
						}
					} else {
						ex.entryLog = append(ex.entryLog, "blocked:"+s.name+":msg-"+ex.blocker.name)
						if b(s) == bPanicBlocked {
							ex.panicked = true
							break
						}
					}
				}
			}
			if !ex.panicked && ex.blocker == nil {
				ex.exitKnown = true
				for _, s := range byKind(2) {
					ex.exitLog = append(ex.exitLog, "completed:"+s.name)
					if b(s) == bPanicCompleted {
						break // later slots are not told; nothing may propagate
					}
				}
			}
			return ex
		}

		type held struct {
			e        *base.SentinelEntry
			ex       expect
			handlers int // bitmask of exit handler behaviours
			hlog     *[]string
		}
		type blk struct {
			b    *base.BlockError
			snap string
		}
		var live []held
		var blocks []blk
		defer func() {
			for _, h := range live {
				h.e.Exit()
			}
		}()
		nontrivial := false
		sawBlockThenEarlyPanic, lastBlocked := false, false
		exitOne := func(k int) {
			h := live[k]
			live = append(live[:k], live[k+1:]...)
			log = nil
			func() {
				defer func() {
					if r := recover(); r != nil {
						t.Fatalf("Exit let a panic reach the caller: %v", r)
					}
				}()
				h.e.Exit()
			}()
			c.Op("Exit -> %v", log)
			handlerPanics := h.handlers&2 != 0
			if h.ex.exitKnown && !handlerPanics {
				if strings.Join(log, " ") != strings.Join(h.ex.exitLog, " ") {
					t.Fatalf("exit callbacks\n got %v\nwant %v", log, h.ex.exitLog)
				}
			}
			if h.ex.exitKnown && handlerPanics && len(log) != 0 && strings.Join(log, " ") != strings.Join(h.ex.exitLog, " ") {
				t.Fatalf("exit callbacks after a panicking exit handler\n got %v\nwant nothing or %v", log, h.ex.exitLog)
			}
			if h.ex.earlyPanic && len(log) != 0 {
				t.Fatalf("the chain panicked before any statistic slot was told of a pass, yet Exit reported completions %v", log)
			}
			for _, l := range log {
				if !strings.HasPrefix(l, "completed:") {
					t.Fatalf("Exit invoked %s", l)
				}
			}
			if h.handlers != 0 && len(*h.hlog) == 0 {
				t.Fatalf("registered exit handlers were not run")
			}
			log = nil
			h.e.Exit()
			h.e.Exit(base.WithError(errors.New("late")))
			if len(log) != 0 {
				t.Fatalf("repeated Exit invoked slots %v", log)
			}
		}
		nOps := rapid.IntRange(1, 8).Draw(t, "ops")
		for op := 0; op < nOps; op++ {
			if len(live) > 0 && rapid.IntRange(0, 2).Draw(t, "what") == 0 {
				exitOne(rapid.IntRange(0, len(live)-1).Draw(t, "which"))
				continue
			}
			flag := rapid.IntRange(0, nsc-1).Draw(t, "scenario")
			ex := model(flag)
			log = nil
			var e *base.SentinelEntry
			var b *base.BlockError
			func() {
				defer func() {
					if r := recover(); r != nil {
						t.Fatalf("Entry let a panic reach the caller: %v", r)
					}
				}()
				e, b = sentinel.Entry("r", sentinel.WithSlotChain(sc), sentinel.WithFlag(int32(flag)))
			}()
			c.Op("Entry(scenario %d) -> %v entry=%v block=%v", flag, log, e != nil, b != nil)
			if strings.Join(log, " ") != strings.Join(ex.entryLog, " ") {
				t.Fatalf("entry callbacks (scenario %d)\n got %v\nwant %v", flag, log, ex.entryLog)
			}
			if ex.panicked || ex.blocker == nil {
				if e == nil || b != nil {
					t.Fatalf("scenario %d (panicked=%v): expected the request to be admitted, got block %v", flag, ex.panicked, b)
				}
			} else {
				if b == nil || e != nil {
					t.Fatalf("scenario %d: expected a block by %s", flag, ex.blocker.name)
				}
				nm := ex.blocker.name
				r, _ := b.TriggeredRule().(*rule)
				v, _ := b.TriggeredValue().(string)
				if b.BlockMsg() != "msg-"+nm || b.BlockType() != base.BlockType(10+len(nm)) || r == nil || r.name != nm || v != nm {
					t.Fatalf("block error {%v %q %v %v} is not the first blocker's (%s)", b.BlockType(), b.BlockMsg(), b.TriggeredRule(), b.TriggeredValue(), nm)
				}
				blocks = append(blocks, blk{b, fmt.Sprint(b.BlockType(), b.BlockMsg(), b.TriggeredRule(), b.TriggeredValue())})
			}
			if collide && (ex.blocker != nil || ex.panicked) {
				nontrivial = true
			}
			if lastBlocked && ex.earlyPanic {
				sawBlockThenEarlyPanic = true
			}
			lastBlocked = !ex.panicked && ex.blocker != nil
			if e != nil {
				h := held{e: e, ex: ex, hlog: &[]string{}}
				h.handlers = rapid.SampledFrom([]int{0, 0, 1, 2, 4, 5, 6}).Draw(t, "handlers")
				hl := h.hlog
				if h.handlers&1 != 0 {
					e.WhenExit(func(*base.SentinelEntry, *base.EntryContext) error { *hl = append(*hl, "ok"); return nil })
				}
				if h.handlers&4 != 0 {
					e.WhenExit(func(*base.SentinelEntry, *base.EntryContext) error {
						*hl = append(*hl, "err")
						return errors.New("handler error")
					})
				}
				if h.handlers&2 != 0 {
					e.WhenExit(func(*base.SentinelEntry, *base.EntryContext) error {
						*hl = append(*hl, "panic")
						if len(*hl)%2 == 0 {
							panic(errors.New("exit handler"))
						}
						panic("exit handler")
					})
				}
				live = append(live, h)
			}
			// every block error handed out so far is still what it was
			for _, bl := range blocks {
				if got := fmt.Sprint(bl.b.BlockType(), bl.b.BlockMsg(), bl.b.TriggeredRule(), bl.b.TriggeredValue()); got != bl.snap {
					t.Fatalf("a block error handed to the caller changed from %q to %q after later traffic", bl.snap, got)
				}
			}
		}
		for len(live) > 0 {
			exitOne(0)
		}
		// follow-up traffic on this and on the global chain recycles pooled contexts/results
		nf := rapid.IntRange(0, 5).Draw(t, "follow")
		for i := 0; i < nf; i++ {
			f := rapid.IntRange(0, nsc-1).Draw(t, "fscen")
			if e2, _ := sentinel.Entry("r2", sentinel.WithSlotChain(sc), sentinel.WithFlag(int32(f))); e2 != nil {
				e2.Exit()
			}
			if e3, _ := sentinel.Entry("r3"); e3 != nil {
				e3.Exit()
			}
		}
		for _, bl := range blocks {
			if got := fmt.Sprint(bl.b.BlockType(), bl.b.BlockMsg(), bl.b.TriggeredRule(), bl.b.TriggeredValue()); got != bl.snap {
				t.Fatalf("a block error handed to the caller changed from %q to %q after follow-up traffic", bl.snap, got)
			}
		}
		c.ClassIf(collide, "colliding-orders")
		c.ClassIf(n > 12, "more-than-12-slots")
		c.ClassIf(len(blocks) > 0, "has-block")
		c.ClassIf(sawBlockThenEarlyPanic, "block-then-early-panic-on-recycled-context")
		if nontrivial {
			c.NonTrivial()
		}
	})
}

// TestDerivedChains: several chains built from the default chain (api.BuildDefaultSlotChain) live side by side with the
// global chain; each gets user slots of its own (any kind, order values below, between, equal to and above the built-in
// slots'). A request through a chain runs exactly that chain's user slots, in ascending order (insertion order on ties),
// and the global chain and chains built later run none of them.
func TestDerivedChains(t *testing.T) {
	hx.Check(t, hx.N{Quick: 1500, Thorough: 15000}, func(t *rapid.T, c *hx.Case) {
		hx.Reset(hx.Epoch)
		for i := 0; i < 64; i++ {
			base.NewSlotChain().GetPooledContext()
		}
		nch := rapid.IntRange(2, 3).Draw(t, "chains")
		slotIdx = map[string]int{}
		type ch struct {
			sc    *base.SlotChain
			slots []*slot
		}
		var chains []*ch
		total := 0
		// construction order varies: all chains first and then the slots, or chain by chain
		allFirst := rapid.Bool().Draw(t, "buildAllChainsFirst")
		if allFirst {
			for i := 0; i < nch; i++ {
				chains = append(chains, &ch{sc: sentinel.BuildDefaultSlotChain()})
			}
		}
		for i := 0; i < nch; i++ {
			if !allFirst {
				chains = append(chains, &ch{sc: sentinel.BuildDefaultSlotChain()})
			}
			x := chains[i]
			for k, n := 0, rapid.IntRange(1, 3).Draw(t, "userSlots"); k < n; k++ {
				s := &slot{kind: rapid.IntRange(0, 2).Draw(t, "kind"), name: fmt.Sprintf("c%ds%d", i, k),
					order: uint32(rapid.SampledFrom([]int{0, 1, 500, 1000, 1500, 2000, 2500, 3000, 4000, 5000, 6000, 9000}).Draw(t, "order"))}
				slotIdx[s.name] = total
				total++
				x.slots = append(x.slots, s)
				switch s.kind {
				case 0:
					x.sc.AddStatPrepareSlot(s)
				case 1:
					x.sc.AddRuleCheckSlot(s)
				default:
					x.sc.AddStatSlot(s)
				}
			}
		}
		scen = [][]int{make([]int, total)} // every user slot behaves
		want := func(x *ch) (entry, exit []string) {
			for kind, tag := range []string{"prep:", "check:", "passed:"} {
				var ss []*slot
				for _, s := range x.slots {
					if s.kind == kind {
						ss = append(ss, s)
					}
				}
				sort.SliceStable(ss, func(a, b int) bool { return ss[a].order < ss[b].order })
				for _, s := range ss {
					entry = append(entry, tag+s.name)
					if kind == 2 {
						exit = append(exit, "completed:"+s.name)
					}
				}
			}
			return
		}
		run := func(name string, opts []sentinel.EntryOption, wantEntry, wantExit []string) {
			log = nil
			e, blk := sentinel.Entry("derived-"+name, opts...)
			got := append([]string(nil), log...)
			log = nil
			if blk != nil || e == nil {
				t.Fatalf("request through %s blocked: %v", name, blk)
			}
			e.Exit()
			gotExit := append([]string(nil), log...)
			log = nil
			if fmt.Sprint(got) != fmt.Sprint(wantEntry) {
				t.Fatalf("request through %s ran the user slots %v, the chain was given %v (%d chains built from the default chain, all first=%v)", name, got, wantEntry, nch, allFirst)
			}
			if fmt.Sprint(gotExit) != fmt.Sprint(wantExit) {
				t.Fatalf("exit of the request through %s told %v, want %v", name, gotExit, wantExit)
			}
		}
		order := rapid.Permutation([]int{0, 1, 2}[:nch]).Draw(t, "requestOrder")
		for _, i := range order {
			we, wx := want(chains[i])
			run(fmt.Sprint("chain ", i), []sentinel.EntryOption{sentinel.WithSlotChain(chains[i].sc)}, we, wx)
		}
		run("the global chain", nil, nil, nil)
		run("a chain built afterwards", []sentinel.EntryOption{sentinel.WithSlotChain(sentinel.BuildDefaultSlotChain())}, nil, nil)
		for i, x := range chains {
			for _, sl := range x.slots {
				c.Op("chain %d: user slot %s kind=%d order=%d", i, sl.name, sl.kind, sl.order)
			}
		}
		c.Op("%d derived chains (all built first=%v), %d user slots, request order %v", nch, allFirst, total, order)
		c.NonTrivial()
	})
}
