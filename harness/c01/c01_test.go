// C01: Entry/Exit accounting is conserved and correctly attributed.
package c01

import (
	"errors"
	"fmt"
	"os"
	"reflect"
	"runtime"
	"runtime/debug"
	"sync"
	"testing"

	sentinel "github.com/alibaba/sentinel-golang/api"
	"github.com/alibaba/sentinel-golang/core/base"
	"github.com/alibaba/sentinel-golang/core/flow"
	"github.com/alibaba/sentinel-golang/core/hotspot"
	"github.com/alibaba/sentinel-golang/core/isolation"
	"github.com/alibaba/sentinel-golang/core/stat"
	"pgregory.net/rapid"

	"verif/harness/hx"
	"verif/harness/model"
)

func TestMain(m *testing.M) {
	if os.Getenv("C01_PROCS") == "" {
		runtime.GOMAXPROCS(1) // sync.Pool reuse is the failure mechanism: keep it a pure function of the op sequence
	}
	hx.Main(m, "C01")
}

// ---- recording statistic slot --------------------------------------------------------------

type cbRec struct {
	kind  string // "pass" | "block" | "complete"
	entry *base.SentinelEntry
	res   string
	batch uint32
	err   error
	rt    uint64
}

type recorder struct {
	mu   sync.Mutex
	log  []cbRec
	keep bool
	n    map[string]int
}

func (r *recorder) Order() uint32 { return 1500 } // after stat.DefaultSlot (1000)
func (r *recorder) add(c cbRec) {
	r.mu.Lock()
	if r.keep {
		r.log = append(r.log, c)
	}
	r.n[c.kind]++
	r.mu.Unlock()
}
func (r *recorder) OnEntryPassed(ctx *base.EntryContext) {
	r.add(cbRec{"pass", ctx.Entry(), ctx.Resource.Name(), ctx.Input.BatchCount, nil, 0})
}
func (r *recorder) OnEntryBlocked(ctx *base.EntryContext, _ *base.BlockError) {
	r.add(cbRec{"block", ctx.Entry(), ctx.Resource.Name(), ctx.Input.BatchCount, nil, 0})
}
func (r *recorder) OnCompleted(ctx *base.EntryContext) {
	runtime.Gosched() // a statistic slot that takes a moment: widens the window in which a second Exit may arrive
	r.add(cbRec{"complete", ctx.Entry(), ctx.Resource.Name(), ctx.Input.BatchCount, ctx.Err(), ctx.Rt()})
}
func (r *recorder) take() []cbRec {
	r.mu.Lock()
	defer r.mu.Unlock()
	l := r.log
	r.log = nil
	return l
}

// ---- scripted slots of the custom chain: behaviour selected per entry through Input.Flag ----
// bit i (0..2): check slot i blocks; bit 8+i: check slot i panics; bit 16: prepare slot panics;
// bit 4+i: check slot i returns an explicit pass result instead of nil.

type prepSlot struct{}

func (prepSlot) Order() uint32 { return 2000 }
func (prepSlot) Prepare(ctx *base.EntryContext) {
	if ctx.Input.Flag&(1<<16) != 0 {
		panic("scripted prepare panic")
	}
}

type checkSlot struct{ i int }

func (s checkSlot) Order() uint32 { return uint32(100 * (s.i + 1)) }
func (s checkSlot) Check(ctx *base.EntryContext) *base.TokenResult {
	f := ctx.Input.Flag
	if f&(1<<(8+s.i)) != 0 {
		panic(fmt.Sprintf("scripted check panic %d", s.i))
	}
	if f&(1<<s.i) != 0 {
		r := ctx.RuleCheckResult
		r.ResetToBlockedWithMessage(base.BlockTypeFlow, fmt.Sprintf("scripted block %d", s.i))
		return r
	}
	if f&(1<<(4+s.i)) != 0 {
		return ctx.RuleCheckResult
	}
	return nil
}

// ---- model ----------------------------------------------------------------------------------

type ment struct {
	id        int
	e         *base.SentinelEntry
	res       string
	inbound   bool
	batch     uint32
	start     uint64
	err       error
	args      []interface{}
	exited    bool
	panicPass bool
}

// errors of comparable and of uncomparable dynamic types (a slice-typed error, a struct error with a slice field): legal
// error values that the library must carry around without comparing them with ==
type sliceErr []string

func (e sliceErr) Error() string { return "sliceErr" + fmt.Sprint([]string(e)) }

type fieldErr struct{ tags []string }

func (e fieldErr) Error() string { return "fieldErr" + fmt.Sprint(e.tags) }

// (a block error of a rejected downstream call, bare and wrapped, is an error like any other for the entry that reports it)
var errs = []error{errors.New("e0"), errors.New("e1"), errors.New("e2"), sliceErr{"s3"}, sliceErr{"s4"}, fieldErr{[]string{"s5"}},
	base.NewBlockErrorWithMessage(base.BlockTypeFlow, "downstream rejected"), fmt.Errorf("calling downstream: %w", base.NewBlockErrorWithMessage(base.BlockTypeIsolation, "downstream busy"))}

func sameErr(a, b error) bool { return reflect.DeepEqual(a, b) && fmt.Sprint(a) == fmt.Sprint(b) }

type sums struct{ lo, hi model.Events } // lo: panic-passed entries not counted; hi: counted

func (s *sums) both(e ...model.Ev)   { s.lo = append(s.lo, e...); s.hi = append(s.hi, e...) }
func (s *sums) onlyHi(e ...model.Ev) { s.hi = append(s.hi, e...) }

func drawArgs(t *rapid.T, allowPanic bool) ([]interface{}, bool) {
	k := rapid.IntRange(0, 6).Draw(t, "argkind")
	switch k {
	case 1:
		return []interface{}{"A"}, false
	case 2:
		return []interface{}{"B", 7}, false
	case 3:
		return []interface{}{1, "x", true}, false
	case 4:
		return []interface{}{3.5}, false
	case 5, 6:
		if allowPanic {
			if k == 5 {
				return []interface{}{[]int{1}}, true // unhashable: the hotspot rule check panics
			}
			return []interface{}{map[string]int{"k": 1}}, true
		}
		return []interface{}{"C"}, false
	}
	return nil, false
}

func TestAccounting(t *testing.T) {
	hx.Check(t, hx.N{Quick: 20000, Thorough: 200000}, func(t *rapid.T, c *hx.Case) {
		debug.SetGCPercent(-1)
		runtime.GC()
		runtime.GC()
		defer debug.SetGCPercent(100)
		hx.Reset(hx.Epoch + uint64(rapid.IntRange(0, 999).Draw(t, "t0")))
		if rapid.IntRange(0, 399).Draw(t, "manyResources") == 137 { // (rapid favours the ends of a range: a middle value keeps this rare)
			// a process that has already seen about base.DefaultMaxResourceAmount resource names (the library only
			// warns beyond that amount): accounting of further resources must be as exact as for the first ones
			n := int(base.DefaultMaxResourceAmount) + rapid.IntRange(-3, 3).Draw(t, "around")
			for i := 0; i < n; i++ {
				stat.GetOrCreateResourceNode(fmt.Sprintf("bulk-%d", i), base.ResTypeCommon)
			}
			c.Op("%d other resources already have statistic nodes", n)
			c.Class("about-10000-resources-before")
		}

		rec := &recorder{keep: true, n: map[string]int{}}
		mixTypes := rapid.IntRange(0, 2).Draw(t, "mixResourceTypes") == 1
		handlerRuns := 0
		c.ClassIf(mixTypes, "mixed-resource-classifications")
		custom := rapid.Bool().Draw(t, "customChain")
		var chain *base.SlotChain
		if custom {
			chain = base.NewSlotChain()
			chain.AddStatPrepareSlot(stat.DefaultResourceNodePrepareSlot)
			chain.AddStatPrepareSlot(prepSlot{})
			for i := 0; i < 3; i++ {
				chain.AddRuleCheckSlot(checkSlot{i})
			}
			chain.AddStatSlot(stat.DefaultSlot)
			chain.AddStatSlot(rec)
			c.Class("custom-chain")
		} else {
			chain = sentinel.BuildDefaultSlotChain()
			chain.AddStatSlot(rec)
			ft := float64(rapid.IntRange(0, 4).Draw(t, "flowT"))
			in := uint32(rapid.IntRange(1, 2).Draw(t, "isoN"))
			if _, err := flow.LoadRules([]*flow.Rule{{Resource: "a", Threshold: ft, TokenCalculateStrategy: flow.Direct, ControlBehavior: flow.Reject},
				{Resource: "c", Threshold: float64(rapid.IntRange(1, 4).Draw(t, "paceT")), ControlBehavior: flow.Throttling, MaxQueueingTimeMs: uint32(rapid.SampledFrom([]int{0, 2000}).Draw(t, "paceQ"))}}); err != nil {
				t.Fatalf("flow load: %v", err)
			}
			hx.C.Advance = true // the single caller really sleeps the wait it is asked for
			defer func() { hx.C.Advance = false }()
			if _, err := isolation.LoadRules([]*isolation.Rule{{Resource: "b", MetricType: isolation.Concurrency, Threshold: in}}); err != nil {
				t.Fatalf("isolation load: %v", err)
			}
			if _, err := hotspot.LoadRules([]*hotspot.Rule{
				{Resource: "a", MetricType: hotspot.QPS, ControlBehavior: hotspot.Reject, ParamIndex: 0, Threshold: 1000000, DurationInSec: 1},
				{Resource: "c", MetricType: hotspot.QPS, ControlBehavior: hotspot.Reject, ParamIndex: 0, Threshold: 1000000, DurationInSec: 1}}); err != nil {
				t.Fatalf("hotspot load: %v", err)
			}
			c.Op("global-chain flowT(a)=%v isoN(b)=%d hotspot idx0 on a,c", ft, in)
		}
		exP1, exP2, exP3 := hx.Known("P1"), hx.Known("P2"), hx.Known("P3")

		resSums := map[string]*sums{"a": {}, "b": {}, "c": {}}
		inSums := &sums{}
		var all []*ment
		defer func() { // leave nothing in flight (shrinking re-runs must start clean)
			for _, m := range all {
				if !m.exited {
					m.e.Exit()
				}
			}
		}()
		maxLive, lateOps, panicPasses, blocksThenTraffic := 0, 0, 0, false
		sawBlock := false

		n := rapid.IntRange(1, 40).Draw(t, "n")
		for step := 0; step < n; step++ {
			var liveIdx, deadIdx []int
			for k, m := range all {
				if m.exited {
					deadIdx = append(deadIdx, k)
				} else {
					liveIdx = append(liveIdx, k)
				}
			}
			now := hx.C.Ms()
			op := rapid.IntRange(0, 7).Draw(t, "op")
			switch {
			case op <= 1: // Entry
				res := rapid.SampledFrom([]string{"a", "b", "c"}).Draw(t, "res")
				batch := uint32(rapid.IntRange(0, 5).Draw(t, "batch")) // 0 tokens is a legal acquire count: the entry still occupies one unit of concurrency
				inbound := rapid.Bool().Draw(t, "inbound")
				args, unhashable := drawArgs(t, !custom && res != "b")
				if unhashable && exP1 {
					args, unhashable = []interface{}{"C"}, false
					c.Excluded("P1")
				}
				flag := int32(0)
				wantBlock, wantPanic := false, false
				if custom {
					if rapid.IntRange(0, 2).Draw(t, "scripted") > 0 {
						flag = int32(rapid.SampledFrom([]int{1, 2, 4, 3, 6, 1 << 8, 1 << 9, 1 << 10, 1 << 16, 1<<9 | 1, 1<<8 | 2, 1<<4 | 2, 1 << 5, 1<<16 | 1}).Draw(t, "flag"))
					}
					// expected outcome of the scripted chain
					if flag&(1<<16) != 0 {
						wantPanic = true
					} else {
						for i := 0; i < 3; i++ {
							if flag&(1<<(8+i)) != 0 {
								wantPanic = true
								break
							}
							if flag&(1<<i) != 0 {
								wantBlock = true
								break
							}
						}
					}
				}
				opts := []sentinel.EntryOption{sentinel.WithSlotChain(chain), sentinel.WithFlag(flag)}
				if !(batch == 1 && rapid.Bool().Draw(t, "plainCall")) { // acquire count 1 either explicitly or by leaving the option out
					opts = append(opts, sentinel.WithBatchCount(batch))
				}
				if inbound {
					opts = append(opts, sentinel.WithTrafficType(base.Inbound))
				}
				if exP3 && len(liveIdx) > 0 && args != nil {
					args = nil // known finding P3: args of live entries alias the pooled options
					c.Excluded("P3")
				}
				if args != nil {
					opts = append(opts, sentinel.WithArgs(args...))
				}
				if mixTypes {
					opts = append(opts, sentinel.WithResourceType(base.ResourceType(rapid.IntRange(0, 6).Draw(t, "resType"))))
				}
				var e *base.SentinelEntry
				var b *base.BlockError
				func() {
					defer func() {
						if r := recover(); r != nil {
							t.Fatalf("Entry(%s) panicked out to the caller: %v", res, r)
						}
					}()
					e, b = sentinel.Entry(res, opts...)
				}()
				// the pacing rule on c may have made the (single) caller sleep inside Entry: the outcome is recorded when the wait
				// is over, the entry's response time runs from the Entry call
				start := now
				now = hx.C.Ms()
				if now != start {
					c.Class("entry-queued-inside-Entry")
				}
				c.Op("Entry(%s batch=%d inbound=%v args=%v flag=%#x) -> entry=%v block=%v (waited %d ms)", res, batch, inbound, args, flag, e != nil, b != nil, now-start)
				if (e == nil) == (b == nil) {
					t.Fatalf("Entry(%s) returned entry=%v and block=%v: not exactly one outcome", res, e, b)
				}
				if custom {
					if wantBlock != (b != nil) {
						t.Fatalf("scripted chain flag=%#x: expected block=%v, got block=%v", flag, wantBlock, b != nil)
					}
				}
				isPanic := unhashable || wantPanic
				cbs := rec.take()
				if b != nil {
					if sawBlock {
						blocksThenTraffic = true
					}
					sawBlock = true
					if len(cbs) != 1 || cbs[0].kind != "block" || cbs[0].res != res || cbs[0].batch != batch {
						t.Fatalf("blocked Entry(%s,batch %d): statistic slot callbacks %s, want exactly one OnEntryBlocked", res, batch, fmtCbs(cbs))
					}
					resSums[res].both(model.Ev{T: now, Kind: model.Block, Amt: int64(batch)})
					if inbound {
						inSums.both(model.Ev{T: now, Kind: model.Block, Amt: int64(batch)})
					}
				} else {
					if sawBlock {
						blocksThenTraffic = true
					}
					m := &ment{id: len(all), e: e, res: res, inbound: inbound, batch: batch, start: start, args: args, panicPass: isPanic}
					all = append(all, m)
					if hk := rapid.IntRange(0, 5).Draw(t, "exitHandler"); hk >= 4 { // exit handlers that return (nil or an error), never panic
						herr := error(nil)
						if hk == 5 {
							herr = errors.New("exit handler failed")
						}
						e.WhenExit(func(*base.SentinelEntry, *base.EntryContext) error { handlerRuns++; return herr })
						c.Op("  #%d: exit handler registered (returns %v)", m.id, herr)
					}
					if isPanic {
						panicPasses++
						if len(cbs) > 1 || (len(cbs) == 1 && (cbs[0].kind != "pass" || cbs[0].entry != e)) {
							t.Fatalf("panic-passed Entry(%s): callbacks %s", res, fmtCbs(cbs))
						}
						ev := model.Ev{T: now, Kind: model.Pass, Amt: int64(batch)}
						resSums[res].onlyHi(ev)
						if inbound {
							inSums.onlyHi(ev)
						}
					} else {
						if len(cbs) != 1 || cbs[0].kind != "pass" || cbs[0].res != res || cbs[0].batch != batch || cbs[0].entry != e {
							t.Fatalf("passed Entry(%s,batch %d): statistic slot callbacks %s, want exactly one OnEntryPassed for this entry", res, batch, fmtCbs(cbs))
						}
						ev := model.Ev{T: now, Kind: model.Pass, Amt: int64(batch)}
						resSums[res].both(ev)
						if inbound {
							inSums.both(ev)
						}
					}
				}
			case op == 2 && len(liveIdx) > 0: // TraceError on a live entry
				m := all[liveIdx[rapid.IntRange(0, len(liveIdx)-1).Draw(t, "i")]]
				er := errs[rapid.IntRange(0, len(errs)-1).Draw(t, "err")]
				sentinel.TraceError(m.e, er)
				m.err = er
				c.Op("TraceError(#%d,%v)", m.id, er)
				if cbs := rec.take(); len(cbs) != 0 {
					t.Fatalf("TraceError produced callbacks %s", fmtCbs(cbs))
				}
			case (op == 3 || op == 4) && len(liveIdx) > 0: // Exit of a live entry (any order)
				m := all[liveIdx[rapid.IntRange(0, len(liveIdx)-1).Draw(t, "i")]]
				func() {
					defer func() {
						if r := recover(); r != nil {
							t.Fatalf("Exit panicked out to the caller: %v", r)
						}
					}()
					if op == 4 {
						er := errs[rapid.IntRange(0, len(errs)-1).Draw(t, "err")]
						m.err = er
						m.e.Exit(base.WithError(er))
						c.Op("Exit(#%d, WithError(%v))", m.id, er)
					} else {
						m.e.Exit()
						c.Op("Exit(#%d)", m.id)
					}
				}()
				m.exited = true
				cbs := rec.take()
				evs := []model.Ev{{T: now, Kind: model.Complete, Amt: int64(m.batch)}, {T: now, Kind: model.Rt, Amt: int64(now - m.start)}}
				if m.err != nil {
					evs = append(evs, model.Ev{T: now, Kind: model.Error, Amt: int64(m.batch)})
				}
				if m.panicPass {
					if len(cbs) > 1 {
						t.Fatalf("Exit of panic-passed #%d: callbacks %s", m.id, fmtCbs(cbs))
					}
					resSums[m.res].onlyHi(evs...)
					if m.inbound {
						inSums.onlyHi(evs...)
					}
				} else {
					if len(cbs) != 1 || cbs[0].kind != "complete" || cbs[0].entry != m.e || cbs[0].res != m.res || cbs[0].batch != m.batch {
						t.Fatalf("Exit(#%d on %s): callbacks %s, want exactly one OnCompleted for this entry", m.id, m.res, fmtCbs(cbs))
					}
					if !sameErr(cbs[0].err, m.err) {
						t.Fatalf("Exit(#%d): completion carried error %v, the entry's own error is %v", m.id, cbs[0].err, m.err)
					}
					if cbs[0].rt != now-m.start {
						t.Fatalf("Exit(#%d): completion carried rt %d, want %d", m.id, cbs[0].rt, now-m.start)
					}
					resSums[m.res].both(evs...)
					if m.inbound {
						inSums.both(evs...)
					}
				}
			case op == 5 && len(deadIdx) > 0: // late calls on an already-exited entry
				m := all[deadIdx[rapid.IntRange(0, len(deadIdx)-1).Draw(t, "i")]]
				late := rapid.IntRange(0, 2).Draw(t, "late")
				if exP2 && late != 0 {
					late = 0
					c.Excluded("P2")
				}
				switch late {
				case 0:
					m.e.Exit()
				case 1:
					m.e.Exit(base.WithError(errs[0]))
				case 2:
					sentinel.TraceError(m.e, errs[1])
				}
				lateOps++
				c.Op("late[%d] on exited #%d", late, m.id)
				if cbs := rec.take(); len(cbs) != 0 {
					t.Fatalf("late call on exited #%d produced callbacks %s", m.id, fmtCbs(cbs))
				}
			case op >= 6:
				dt := uint64(rapid.SampledFrom([]int{1, 100, 499, 500, 501, 1000, 3000, 12000, 60001, 3600000}).Draw(t, "dt"))
				hx.C.AddMs(dt)
				c.Op("advance %d", dt)
			}

			// ---- invariants after every operation ----
			now = hx.C.Ms()
			nlive := 0
			for _, m := range all {
				if !m.exited {
					nlive++
				}
			}
			if nlive > maxLive {
				maxLive = nlive
			}
			inLo, inHi := 0, 0
			for _, res := range []string{"a", "b", "c"} {
				lo, hi := 0, 0
				for _, m := range all {
					if m.res == res && !m.exited {
						hi++
						if !m.panicPass {
							lo++
						}
					}
				}
				for _, m := range all {
					if m.res == res && !m.exited && m.inbound {
						inHi++
						if !m.panicPass {
							inLo++
						}
					}
				}
				node := stat.GetResourceNode(res)
				if node == nil {
					if lo > 0 {
						t.Fatalf("resource %s has live entries but no node", res)
					}
					continue
				}
				cc := int(node.CurrentConcurrency())
				if cc < 0 {
					t.Fatalf("reported concurrency of %s is negative: %d", res, cc)
				}
				if cc < lo || cc > hi {
					t.Fatalf("reported concurrency of %s = %d, live entries in the model [%d,%d]", res, cc, lo, hi)
				}
				checkSums(t, "resource "+res, node, resSums[res], now)
			}
			icc := int(stat.InboundNode().CurrentConcurrency())
			if icc < inLo || icc > inHi {
				t.Fatalf("inbound concurrency = %d, live inbound entries in the model [%d,%d]", icc, inLo, inHi)
			}
			checkSums(t, "inbound total", stat.InboundNode(), inSums, now)
			for _, m := range all {
				if m.exited {
					continue
				}
				if !m.panicPass && !sameErr(m.e.Context().Err(), m.err) {
					t.Fatalf("live entry #%d (%s): Context().Err()=%v, its own error is %v (cross-talk through a recycled context)", m.id, m.res, m.e.Context().Err(), m.err)
				}
				got := m.e.Context().Input.Args
				if len(got) != len(m.args) || (len(got) > 0 && !reflect.DeepEqual(got, m.args)) {
					t.Fatalf("live entry #%d (%s): Context().Input.Args=%v, it was created with %v", m.id, m.res, got, m.args)
				}
			}
		}
		c.ClassIf(maxLive >= 2, ">=2-live")
		c.ClassIf(lateOps > 0, "late-call")
		c.ClassIf(handlerRuns > 0, "exit-handler-ran")
		c.ClassIf(panicPasses > 0, "panic-pass")
		c.ClassIf(blocksThenTraffic, "block-then-traffic")
		if maxLive >= 2 || lateOps > 0 || panicPasses > 0 || blocksThenTraffic {
			c.NonTrivial()
		}
	})
}

func checkSums(t *rapid.T, what string, node *stat.ResourceNode, s *sums, now uint64) {
	for k, ev := range []base.MetricEvent{base.MetricEventPass, base.MetricEventBlock, base.MetricEventComplete, base.MetricEventError, base.MetricEventRt} {
		got := node.GetSum(ev)
		lo, hi := s.lo.Sum(k, now, 500, 1000), s.hi.Sum(k, now, 500, 1000)
		if got < lo || got > hi {
			t.Fatalf("t=%d %s: windowed sum of event %d = %d, reference [%d,%d]", now, what, k, got, lo, hi)
		}
	}
	s.lo = s.lo.Prune(now, 30000)
	s.hi = s.hi.Prune(now, 30000)
}

func fmtCbs(cbs []cbRec) string {
	s := "["
	for _, c := range cbs {
		s += fmt.Sprintf("%s(%s,batch %d) ", c.kind, c.res, c.batch)
	}
	return s + "]"
}

// ---- many goroutines, checked at quiescence ---------------------------------------------------

type gop struct {
	double  bool // exit this entry from two goroutines at once
	kind    int  // 0 entry, 1 trace on newest held, 2 exit oldest held, 3 exit newest held (+err), 4 double exit of last exited
	res     string
	batch   uint32
	inbound bool
	bad     bool // unhashable argument -> rule check panics
	yield   bool
}

func TestConcurrentQuiescence(t *testing.T) {
	hx.Check(t, hx.N{Quick: 1500, Thorough: 20000}, func(t *rapid.T, c *hx.Case) {
		old := runtime.GOMAXPROCS(8)
		defer runtime.GOMAXPROCS(old)
		hx.Reset(hx.Epoch + 100) // the clock stands still: every event lands in one bucket
		rec := &recorder{n: map[string]int{}}
		chain := sentinel.BuildDefaultSlotChain()
		chain.AddStatSlot(rec)
		ft := float64(rapid.IntRange(0, 30).Draw(t, "flowT"))
		flow.LoadRules([]*flow.Rule{{Resource: "a", Threshold: ft}})
		isolation.LoadRules([]*isolation.Rule{{Resource: "b", MetricType: isolation.Concurrency, Threshold: uint32(rapid.IntRange(1, 3).Draw(t, "isoN"))}})
		hotspot.LoadRules([]*hotspot.Rule{{Resource: "c", MetricType: hotspot.QPS, ControlBehavior: hotspot.Reject, ParamIndex: 0, Threshold: 1000000, DurationInSec: 1}})
		exP1 := hx.Known("P1")
		G := rapid.IntRange(2, 8).Draw(t, "G")
		scripts := make([][]gop, G)
		for g := range scripts {
			n := rapid.IntRange(1, 30).Draw(t, "len")
			for i := 0; i < n; i++ {
				o := gop{kind: rapid.SampledFrom([]int{0, 0, 0, 1, 2, 3, 4}).Draw(t, "kind"), res: rapid.SampledFrom([]string{"a", "b", "c"}).Draw(t, "res"),
					batch: uint32(rapid.IntRange(1, 3).Draw(t, "batch")), inbound: rapid.Bool().Draw(t, "in"), yield: rapid.Bool().Draw(t, "yield"),
					double: rapid.IntRange(0, 3).Draw(t, "exitFromTwoGoroutines") == 0}
				if o.res == "c" && !exP1 {
					o.bad = rapid.IntRange(0, 3).Draw(t, "bad") == 0
				}
				scripts[g] = append(scripts[g], o)
			}
		}
		c.Op("G=%d flowT=%v", G, ft)
		for g, sc := range scripts {
			c.Op("g%d: %v", g, sc)
		}
		type tally = tallyT
		tl := make([]map[string]*tallyT, G)
		inb := make([]tally, G)
		var wg sync.WaitGroup
		fail := make(chan string, G)
		for g := 0; g < G; g++ {
			g := g
			tl[g] = map[string]*tallyT{"a": {}, "b": {}, "c": {}}
			wg.Add(1)
			go func() {
				defer wg.Done()
				defer func() {
					if r := recover(); r != nil {
						fail <- fmt.Sprint("panic reached the caller: ", r)
					}
				}()
				type held struct {
					e   *base.SentinelEntry
					o   gop
					err bool
					pnc bool
				}
				var hs []held
				var last *base.SentinelEntry
				finish := func(h held, withErr bool) {
					if withErr {
						h.err = true
						h.e.Exit(base.WithError(errs[0]))
					} else if h.o.double { // the entry is exited by two goroutines at once: still one completion
						var w sync.WaitGroup
						w.Add(1)
						go func() { defer w.Done(); h.e.Exit() }()
						runtime.Gosched()
						h.e.Exit()
						w.Wait()
					} else {
						h.e.Exit()
					}
					last = h.e
					if h.err && !h.pnc {
						tl[g][h.o.res].errTok += int64(h.o.batch)
						if h.o.inbound {
							inb[g].errTok += int64(h.o.batch)
						}
					}
				}
				for _, o := range scripts[g] {
					if o.yield {
						runtime.Gosched()
					}
					switch o.kind {
					case 0:
						opts := []sentinel.EntryOption{sentinel.WithSlotChain(chain), sentinel.WithBatchCount(o.batch)}
						if o.inbound {
							opts = append(opts, sentinel.WithTrafficType(base.Inbound))
						}
						if o.bad {
							opts = append(opts, sentinel.WithArgs([]int{1}))
						} else {
							opts = append(opts, sentinel.WithArgs(g))
						}
						e, b := sentinel.Entry(o.res, opts...)
						if (e == nil) == (b == nil) {
							fail <- "Entry returned not exactly one outcome"
							return
						}
						tt := tl[g][o.res]
						tt.entries++
						tt.requested += int64(o.batch)
						if o.inbound {
							inb[g].requested += int64(o.batch)
						}
						if o.bad {
							tt.panicTok += int64(o.batch)
							if o.inbound {
								inb[g].panicTok += int64(o.batch)
							}
						}
						if e != nil {
							if !o.bad {
								tt.passed++
								tt.passedTok += int64(o.batch)
								if o.inbound {
									inb[g].passedTok += int64(o.batch)
								}
							}
							hs = append(hs, held{e: e, o: o, pnc: o.bad})
						}
					case 1:
						if len(hs) > 0 {
							sentinel.TraceError(hs[len(hs)-1].e, errs[1])
							hs[len(hs)-1].err = true
						}
					case 2:
						if len(hs) > 0 {
							finish(hs[0], false)
							hs = hs[1:]
						}
					case 3:
						if len(hs) > 0 {
							finish(hs[len(hs)-1], true)
							hs = hs[:len(hs)-1]
						}
					case 4:
						if last != nil {
							last.Exit(base.WithError(errs[2]))
							sentinel.TraceError(last, errs[2])
						}
					}
				}
				for _, h := range hs {
					finish(h, false)
				}
			}()
		}
		wg.Wait()
		select {
		case m := <-fail:
			t.Fatalf("%s", m)
		default:
		}
		// quiescence: nothing in flight
		var totalEntries, totalPassed int64
		var inAll tally
		for _, res := range []string{"a", "b", "c"} {
			var s tally
			for g := 0; g < G; g++ {
				x := tl[g][res]
				s.requested += x.requested
				s.panicTok += x.panicTok
				s.entries += x.entries
				s.passed += x.passed
				s.passedTok += x.passedTok
				s.errTok += x.errTok
			}
			totalEntries += s.entries
			totalPassed += s.passed
			node := stat.GetResourceNode(res)
			if node == nil {
				if s.entries > 0 {
					t.Fatalf("no node for %s", res)
				}
				continue
			}
			checkQuiescent(t, "resource "+res, node, s.requested, s.panicTok, s.passedTok, s.errTok)
		}
		for g := 0; g < G; g++ {
			inAll.requested += inb[g].requested
			inAll.panicTok += inb[g].panicTok
			inAll.passedTok += inb[g].passedTok
			inAll.errTok += inb[g].errTok
		}
		checkQuiescent(t, "inbound total", stat.InboundNode(), inAll.requested, inAll.panicTok, inAll.passedTok, inAll.errTok)
		rec.mu.Lock()
		np, nb, nc := int64(rec.n["pass"]), int64(rec.n["block"]), int64(rec.n["complete"])
		rec.mu.Unlock()
		if bad := countBad(scripts); np < totalPassed || np > totalPassed+bad {
			t.Fatalf("recording slot saw %d OnEntryPassed, %d entries passed (+%d panic-passed)", np, totalPassed, bad)
		}
		if np+nb > totalEntries || np+nb < totalEntries-countBad(scripts) {
			t.Fatalf("recording slot saw %d outcomes for %d Entry calls", np+nb, totalEntries)
		}
		if nc != np {
			t.Fatalf("recording slot saw %d completions for %d passes after everything exited", nc, np)
		}
		c.NonTrivial()
	})
}

type tallyT = struct{ requested, panicTok, entries, passed, passedTok, errTok int64 }

func countBad(scripts [][]gop) int64 {
	var n int64
	for _, s := range scripts {
		for _, o := range s {
			if o.kind == 0 && o.bad {
				n++
			}
		}
	}
	return n
}

func checkQuiescent(t *rapid.T, what string, node *stat.ResourceNode, requested, panicTok, passedTok, errTok int64) {
	if cc := node.CurrentConcurrency(); cc != 0 {
		t.Fatalf("%s: nothing is in flight but the reported concurrency is %d", what, cc)
	}
	p, b, cp, er := node.GetSum(base.MetricEventPass), node.GetSum(base.MetricEventBlock), node.GetSum(base.MetricEventComplete), node.GetSum(base.MetricEventError)
	if p+b > requested || p+b < requested-panicTok {
		t.Fatalf("%s: pass %d + block %d tokens, requested %d (of which %d panic-passed)", what, p, b, requested, panicTok)
	}
	if p < passedTok || p > passedTok+panicTok {
		t.Fatalf("%s: pass tokens %d, entries handed out carried %d (+%d panic-passed)", what, p, passedTok, panicTok)
	}
	if cp != p {
		t.Fatalf("%s: %d pass tokens but %d completion tokens after every entry exited", what, p, cp)
	}
	if er < errTok || er > errTok+panicTok {
		t.Fatalf("%s: error tokens %d, reference %d", what, er, errTok)
	}
}

// ---- plain regression cases for repaired defects ------------------------------------------------

func TestP_RegressP1(t *testing.T) {
	hx.Plain(t, func(c *hx.Case) {
		hx.Reset(hx.Epoch)
		hotspot.LoadRules([]*hotspot.Rule{{Resource: "p1", MetricType: hotspot.QPS, ControlBehavior: hotspot.Reject, ParamIndex: 0, Threshold: 100, DurationInSec: 1}})
		e, b := sentinel.Entry("p1", sentinel.WithArgs([]int{1}))
		c.Op("hotspot rule idx0; Entry(p1, args=[[]int{1}]); Exit")
		if e == nil || b != nil {
			t.Fatalf("panic-pass expected, got entry=%v block=%v", e, b)
		}
		e.Exit()
		if cc := stat.GetResourceNode("p1").CurrentConcurrency(); cc != 0 {
			t.Fatalf("concurrency after panic-pass + exit = %d", cc)
		}
		c.NonTrivial()
	})
}

func TestP_RegressP2(t *testing.T) {
	hx.Plain(t, func(c *hx.Case) {
		runtime.GC()
		runtime.GC()
		hx.Reset(hx.Epoch)
		x1, _ := sentinel.Entry("p2a")
		x1.Exit()
		x2, _ := sentinel.Entry("p2b")
		x1.Exit(base.WithError(errs[0]))
		sentinel.TraceError(x1, errs[1])
		c.Op("x1=Entry(a); x1.Exit(); x2=Entry(b); x1.Exit(WithError(e)); TraceError(x1,e')")
		if got := x2.Context().Err(); got != nil {
			t.Fatalf("late calls on exited x1 changed live x2's error to %v", got)
		}
		x2.Exit()
		if got := stat.GetResourceNode("p2b").GetSum(base.MetricEventError); got != 0 {
			t.Fatalf("x2 completed with a foreign error (error sum %d)", got)
		}
		c.NonTrivial()
	})
}

func TestP_RegressP3(t *testing.T) {
	hx.Plain(t, func(c *hx.Case) {
		runtime.GC()
		runtime.GC()
		hx.Reset(hx.Epoch)
		e1, _ := sentinel.Entry("p3", sentinel.WithArgs("A"))
		e2, _ := sentinel.Entry("p3", sentinel.WithArgs("B"))
		c.Op("e1=Entry(p3,args A); e2=Entry(p3,args B)")
		if got := e1.Context().Input.Args; len(got) != 1 || got[0] != "A" {
			t.Fatalf("e1's args became %v after a second Entry", got)
		}
		e1.Exit()
		e2.Exit()
		c.NonTrivial()
	})
}
