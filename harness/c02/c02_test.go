// C02: QPS flow rule admits exactly up to the threshold per statistic window.
package c02

import (
	"fmt"
	"testing"

	sentinel "github.com/alibaba/sentinel-golang/api"
	"github.com/alibaba/sentinel-golang/core/base"
	"github.com/alibaba/sentinel-golang/core/flow"
	"github.com/alibaba/sentinel-golang/core/isolation"
	"pgregory.net/rapid"

	"verif/harness/hx"
	"verif/harness/sched"
)

func TestMain(m *testing.M) { hx.Main(m, "C02") }

type adm struct {
	t   uint64
	tok int64
}

type mrule struct {
	r          *flow.Rule
	bl, iv     uint64
	standalone bool
	own        []adm // content of the rule's stand-alone window (tokens admitted on the observed resource since load)
}

// statCfg is the process-wide statistic configuration of the running case.
var statCfg = hx.DefaultStat

// geom: window geometry of a reject rule with statistic interval i under the process-wide configuration (array of GS
// buckets over GI ms, default metric of MS samples over MI ms), from the rule documentation: interval 0 or the default
// metric's interval reads the default metric; an interval that is a multiple of the array's bucket and divides the array's
// interval reads the resource's array through a window of its own length; a multiple of the bucket that does not divide
// the array's interval gets an array of its own with buckets of the same length; anything else a single bucket of its own.
func geom(i uint32) (bl, iv uint64, standalone bool) {
	c := statCfg
	gbl := c.GI / c.GS
	if i == 0 || i == c.MI {
		return uint64(gbl), uint64(c.MI), false // (a read window slides by the ARRAY's buckets, whatever its own sample count)
	}
	iv = uint64(i)
	if i >= gbl && i <= c.GI && i%gbl == 0 {
		return uint64(gbl), iv, c.GI%i != 0
	}
	return iv, iv, true
}

func wsum(a []adm, now, bl, iv uint64) int64 {
	end := now - now%bl + bl
	var lo uint64
	if end > iv {
		lo = end - iv
	}
	var s int64
	for _, x := range a {
		if x.t >= lo && x.t < end {
			s += x.tok
		}
	}
	return s
}

var thresholds = []float64{0, 0.5, 1, 2.5, 3, 7, 20}
var intervals = []int{0, 500, 1000, 2000, 2500, 5000, 10000, 100, 250, 700, 1500, 3000, 12000, 20000}

func drawRules(t *rapid.T, c *hx.Case, maxRules int) []*mrule {
	nr := rapid.IntRange(1, maxRules).Draw(t, "nrules")
	var ms []*mrule
	for i := 0; i < nr; i++ {
		ms = append(ms, drawRule(t, c, i))
	}
	return ms
}

func drawRule(t *rapid.T, c *hx.Case, i int) *mrule {
	{
		r := &flow.Rule{ID: fmt.Sprint(i), Resource: "a", TokenCalculateStrategy: flow.Direct, ControlBehavior: flow.Reject,
			Threshold:        rapid.SampledFrom(thresholds).Draw(t, "T"),
			StatIntervalInMs: uint32(rapid.SampledFrom(intervals).Draw(t, "I"))}
		if rapid.IntRange(0, 2).Draw(t, "assoc") == 0 {
			r.RelationStrategy = flow.AssociatedResource
			r.RefResource = "b"
		}
		bl, iv, sa := geom(r.StatIntervalInMs)
		if sa && r.RelationStrategy == flow.AssociatedResource && hx.Known("P4") {
			// known finding P4: associated rule with a stand-alone window observes its own resource
			r.RelationStrategy = flow.CurrentResource
			r.RefResource = ""
			c.Excluded("P4")
		}
		c.Op("rule %d T=%v I=%d relation=%v standalone=%v", i, r.Threshold, r.StatIntervalInMs, r.RelationStrategy, sa)
		return &mrule{r: r, bl: bl, iv: iv, standalone: sa}
	}
}

// pacerFirst: a pacing (throttling) rule on resource a is listed before the reject rules of the case: requests in a burst
// are asked to wait a little and the reject rules are consulted when that wait is over.
var pacerFirst bool

// perResourceLoad: the next load goes through the per-resource loader (every rule of these histories is on resource a).
var perResourceLoad bool

func load(t *rapid.T, ms []*mrule) {
	var cp []*flow.Rule
	if pacerFirst {
		cp = append(cp, &flow.Rule{ID: "pacer", Resource: "a", TokenCalculateStrategy: flow.Direct, ControlBehavior: flow.Throttling, Threshold: 50, MaxQueueingTimeMs: 3600000})
	}
	for _, m := range ms {
		x := *m.r
		cp = append(cp, &x)
	}
	if perResourceLoad {
		if _, err := flow.LoadRulesOfResource("a", cp); err != nil {
			t.Fatalf("LoadRulesOfResource: %v", err)
		}
	} else if _, err := flow.LoadRules(cp); err != nil {
		t.Fatalf("LoadRules: %v", err)
	}
	if got := len(flow.GetRulesOfResource("a")); got != len(cp) {
		t.Fatalf("%d valid rules loaded, module reports %d", len(cp), got)
	}
}

func observed(m *mrule) string {
	if m.r.RelationStrategy == flow.AssociatedResource {
		return "b"
	}
	return "a"
}

// expected decision for a request of batch b on resource a at now.
func decide(ms []*mrule, passes map[string][]adm, now uint64, b uint32) (blockedBy int, val float64) {
	for k, m := range ms {
		var cur int64
		if m.standalone {
			cur = wsum(m.own, now, m.bl, m.iv)
		} else {
			cur = wsum(passes[observed(m)], now, m.bl, m.iv)
		}
		if float64(cur)+float64(b) > m.r.Threshold {
			return k, float64(cur)
		}
	}
	return -1, 0
}

func record(ms []*mrule, passes map[string][]adm, res string, now uint64, b uint32) {
	passes[res] = append(passes[res], adm{now, int64(b)})
	for _, m := range ms {
		if m.standalone && observed(m) == res {
			m.own = append(m.own, adm{now, int64(b)})
		}
	}
}

func TestSequential(t *testing.T) {
	hx.Check(t, hx.N{Quick: 30000, Thorough: 300000}, func(t *rapid.T, c *hx.Case) {
		statCfg = hx.DefaultStat
		if k := rapid.IntRange(0, 2*len(hx.StatCfgs)).Draw(t, "statConfig"); k < len(hx.StatCfgs) { // one case in two under a legal non-default configuration
			statCfg = hx.StatCfgs[k]
		}
		defer func() { statCfg = hx.DefaultStat }()
		hx.ResetCfg(hx.Epoch+uint64(rapid.IntRange(0, 20000).Draw(t, "t0")), statCfg, nil)
		c.ClassIf(statCfg != hx.DefaultStat, "non-default-statistic-configuration")
		c.Op("statistic configuration %+v", statCfg)
		ms := drawRules(t, c, 3)
		pacerFirst = rapid.IntRange(0, 3).Draw(t, "pacingRuleFirst") == 0
		hx.C.Advance = pacerFirst // the (single) caller really sleeps the wait it is asked for
		defer func() { pacerFirst, hx.C.Advance = false, false }()
		c.ClassIf(pacerFirst, "pacing-rule-listed-before-the-reject-rules")
		if pre := rapid.IntRange(0, 9).Draw(t, "predecessorFamily"); pre >= 1 && pre <= 5 {
			// the resource carried a rule of another family before (same statistic interval and relation as one of the reject
			// rules, no traffic yet): the reject rules that replace it count from an empty window of their own
			like := ms[rapid.IntRange(0, len(ms)-1).Draw(t, "predecessorLike")].r
			p := &flow.Rule{ID: "pre", Resource: "a", Threshold: 7, StatIntervalInMs: like.StatIntervalInMs, RelationStrategy: like.RelationStrategy, RefResource: like.RefResource, MaxQueueingTimeMs: 10,
				LowMemUsageThreshold: 9, HighMemUsageThreshold: 3, MemLowWaterMarkBytes: 1024, MemHighWaterMarkBytes: 2048, WarmUpPeriodSec: 3, WarmUpColdFactor: 2}
			switch pre {
			case 1:
				p.TokenCalculateStrategy, p.ControlBehavior = flow.Direct, flow.Throttling
			case 2:
				p.TokenCalculateStrategy, p.ControlBehavior = flow.MemoryAdaptive, flow.Reject
			case 3:
				p.TokenCalculateStrategy, p.ControlBehavior = flow.MemoryAdaptive, flow.Throttling
			case 4:
				p.TokenCalculateStrategy, p.ControlBehavior = flow.WarmUp, flow.Throttling
			case 5:
				p.TokenCalculateStrategy, p.ControlBehavior = flow.WarmUp, flow.Reject
			}
			var err error
			if rapid.Bool().Draw(t, "predecessorPerResource") {
				_, err = flow.LoadRulesOfResource("a", []*flow.Rule{p})
			} else {
				_, err = flow.LoadRules([]*flow.Rule{p})
			}
			if err != nil || len(flow.GetRulesOfResource("a")) != 1 {
				t.Fatalf("predecessor rule %+v not accepted: %v", p, err)
			}
			perResourceLoad = rapid.Bool().Draw(t, "replacePerResource")
			c.Class("replaces-a-rule-of-another-family")
		}
		load(t, ms)
		perResourceLoad = false
		nextID, reloaded := 10, false
		mixTypes := rapid.IntRange(0, 2).Draw(t, "mixResourceTypes") == 1 // the same resource name under several classifications
		c.ClassIf(mixTypes, "mixed-resource-classifications")
		passes := map[string][]adm{}
		var live []*base.SentinelEntry
		defer func() {
			for _, e := range live {
				e.Exit()
			}
		}()
		n := rapid.IntRange(1, 60).Draw(t, "n")
		sawBlock, sawPassAfterBoundary, crossed := false, false, false
		var held []*base.BlockError
		var heldAs []string
		special := len(ms) > 1
		for _, m := range ms {
			if m.standalone || m.r.RelationStrategy == flow.AssociatedResource {
				special = true
			}
		}
		for i := 0; i < n; i++ {
			now := hx.C.Ms()
			var dt uint64
			switch rapid.IntRange(0, 6).Draw(t, "dk") {
			case 1:
				dt = uint64(rapid.IntRange(1, 499).Draw(t, "dt"))
			case 2:
				dt = 500 - now%500
			case 3:
				dt = 10000 - now%10000
			case 4:
				dt = uint64(rapid.IntRange(500, 25000).Draw(t, "dt"))
			case 5:
				iv := ms[rapid.IntRange(0, len(ms)-1).Draw(t, "ri")].iv
				dt = iv - now%iv // onto the boundary of one rule's own interval
			case 6:
				dt = uint64(rapid.SampledFrom([]int{100, 250, 700, 1500, 3000, 12000}).Draw(t, "dtI"))
			}
			if dt > 0 && (now+dt)/500 != now/500 {
				crossed = true
			}
			hx.C.AddMs(dt)
			now = hx.C.Ms()
			if rapid.IntRange(0, 9).Draw(t, "reload") == 0 {
				// reload with every present rule unchanged and one rule added (anywhere) or one removed: unchanged rules
				// keep their windows, the added rule starts an empty stand-alone window of its own (or reads the shared one)
				if len(ms) > 1 && rapid.Bool().Draw(t, "remove") {
					k := rapid.IntRange(0, len(ms)-1).Draw(t, "which")
					c.Op("reload without rule %s", ms[k].r.ID)
					ms = append(ms[:k:k], ms[k+1:]...)
				} else if len(ms) < 5 {
					nextID++
					m := drawRule(t, c, nextID)
					k := rapid.IntRange(0, len(ms)).Draw(t, "at")
					// rules are matched to their old controllers modulo ID, so a twin of a present rule (same threshold, interval,
					// relation) is indistinguishable from it for the library: the added rule is made to differ in its threshold
					for ti := 0; ti < len(thresholds); ti++ {
						twin := false
						for _, o := range ms {
							if o.r.Threshold == m.r.Threshold && o.r.StatIntervalInMs == m.r.StatIntervalInMs && o.r.RelationStrategy == m.r.RelationStrategy {
								twin = true
							}
						}
						if !twin {
							break
						}
						m.r.Threshold = thresholds[ti]
					}
					ms = append(ms[:k:k], append([]*mrule{m}, ms[k:]...)...)
					c.Op("reload with rule %s added at position %d", m.r.ID, k)
				}
				perResourceLoad = rapid.Bool().Draw(t, "perResourceLoader")
				load(t, ms)
				c.ClassIf(perResourceLoad, "mid-history-reload-through-the-per-resource-loader")
				perResourceLoad = false
				reloaded = true
			}
			res := rapid.SampledFrom([]string{"a", "a", "b"}).Draw(t, "res")
			b := uint32(rapid.SampledFrom([]int{1, 1, 1, 2, 3, 5, 30}).Draw(t, "batch"))
			var bo []sentinel.EntryOption // a single token is asked for either explicitly or by leaving the option out
			if mixTypes {
				bo = append(bo, sentinel.WithResourceType(base.ResourceType(rapid.IntRange(0, 6).Draw(t, "resType"))))
			}
			if !(b == 1 && rapid.Bool().Draw(t, "plainCall")) {
				bo = append(bo, sentinel.WithBatchCount(b))
			}
			e, blk := sentinel.Entry(res, bo...)
			now = hx.C.Ms() // (later than the arrival when the pacing rule made the request wait)
			expBlock, expVal := -1, 0.0
			if res == "a" {
				expBlock, expVal = decide(ms, passes, now, b)
			}
			c.Op("+%d t=%d Entry(%s,batch %d) -> blocked=%v", dt, now, res, b, blk != nil)
			if expBlock >= 0 {
				if blk == nil {
					t.Fatalf("t=%d Entry(%s,batch %d): over-admission — rule %d (T=%v, I=%d) already holds %v tokens in its window, request passed", now, res, b, expBlock, ms[expBlock].r.Threshold, ms[expBlock].r.StatIntervalInMs, expVal)
				}
				if blk.BlockType() != base.BlockTypeFlow {
					t.Fatalf("block type %v, want flow", blk.BlockType())
				}
				// (rule identity is modulo ID: a controller kept for an unchanged rule still reports the rule object it was built from)
				if r, ok := blk.TriggeredRule().(*flow.Rule); !ok || r.Threshold != ms[expBlock].r.Threshold || r.StatIntervalInMs != ms[expBlock].r.StatIntervalInMs || r.RelationStrategy != ms[expBlock].r.RelationStrategy {
					t.Fatalf("t=%d blocked by rule %v, the first exhausted rule is %s", now, blk.TriggeredRule(), ms[expBlock].r.ID)
				}
				if v, ok := blk.TriggeredValue().(float64); !ok || v != expVal {
					t.Fatalf("t=%d triggered value %v, window content per reference %v", now, blk.TriggeredValue(), expVal)
				}
				sawBlock = true
				crossed = false
				held = append(held, blk)
				heldAs = append(heldAs, hx.BlockSnapshot(blk))
			} else {
				if blk != nil {
					t.Fatalf("t=%d Entry(%s,batch %d): spurious rejection by rule %v (reported window value %v); reference window sums leave room", now, res, b, blk.TriggeredRule(), blk.TriggeredValue())
				}
				record(ms, passes, res, now, b)
				if sawBlock && crossed && res == "a" {
					sawPassAfterBoundary = true
				}
				if rapid.Bool().Draw(t, "exitNow") {
					e.Exit()
				} else {
					live = append(live, e)
				}
			}
		}
		// the block errors handed out stay as they were, whatever ran afterwards - including requests that another module
		// rejects on recycled contexts (an isolation rule on a resource of its own, exhausted on purpose)
		if len(held) > 0 {
			if _, err := isolation.LoadRules([]*isolation.Rule{{Resource: "zz", MetricType: isolation.Concurrency, Threshold: 1}}); err != nil {
				t.Fatalf("isolation rule: %v", err)
			}
			first, _ := sentinel.Entry("zz")
			for k := 0; k < 8; k++ {
				if e, _ := sentinel.Entry("zz"); e != nil {
					e.Exit()
				}
			}
			if first != nil {
				first.Exit()
			}
			for k, b := range held {
				if now := hx.BlockSnapshot(b); now != heldAs[k] {
					t.Fatalf("a block error handed to the caller changed afterwards: it was {%s}, now it reads {%s}", heldAs[k], now)
				}
			}
		}
		c.ClassIf(sawBlock && sawPassAfterBoundary, "block-then-pass-across-boundary")
		c.ClassIf(special, "standalone/associated/multi-rule")
		c.ClassIf(reloaded, "reload-adds-or-removes-a-rule-mid-history")
		if (sawBlock && sawPassAfterBoundary) || special {
			c.NonTrivial()
		}
	})
}

// TestAdmissionPathInterleavings: up to k=3 requests are inside the admission path at once. The
// chain.checked yield separates the decision (rule check) from the recording (statistic phase);
// the order of Begin / Finish / clock ticks is drawn.
func TestAdmissionPathInterleavings(t *testing.T) {
	hx.Check(t, hx.N{Quick: 18000, Thorough: 200000}, func(t *rapid.T, c *hx.Case) {
		hx.Reset(hx.Epoch + uint64(rapid.IntRange(0, 999).Draw(t, "t0")))
		s := sched.New("chain.checked")
		defer s.Close()
		ms := drawRules(t, c, 2)
		for _, m := range ms { // the concurrent clause is about the rule's own resource
			m.r.RelationStrategy = flow.CurrentResource
			m.r.RefResource = ""
		}
		load(t, ms)
		const k = 3
		passes := map[string][]adm{}
		type req struct {
			task   *sched.Task
			b      uint32
			e      *base.SentinelEntry
			blk    *base.BlockError
			expBlk int
			expVal float64
		}
		var inPath []*req
		var entries []*base.SentinelEntry
		defer func() {
			for _, e := range entries {
				e.Exit()
			}
		}()
		maxB, maxPark := uint32(0), 0
		n := rapid.IntRange(1, 30).Draw(t, "n")
		finish := func(j int) {
			r := inPath[j]
			inPath = append(inPath[:j], inPath[j+1:]...)
			now := hx.C.Ms()
			if !s.Finish(r.task, 1000) {
				t.Fatalf("Entry did not terminate")
			}
			if r.task.Panic != nil {
				t.Fatalf("Entry panicked: %v", r.task.Panic)
			}
			c.Op("t=%d Finish(batch %d) -> blocked=%v", now, r.b, r.blk != nil)
			if (r.expBlk >= 0) != (r.blk != nil) {
				t.Fatalf("decision of a request (batch %d) differs from the reference evaluated on what had been recorded at its check instant: expected blocked-by=%d (window value %v), got block=%v", r.b, r.expBlk, r.expVal, r.blk)
			}
			if r.blk != nil {
				if v, ok := r.blk.TriggeredValue().(float64); !ok || v != r.expVal {
					t.Fatalf("triggered value %v, recorded at the check instant %v", r.blk.TriggeredValue(), r.expVal)
				}
			} else {
				record(ms, passes, "a", now, r.b) // the statistic phase records at its own instant
				entries = append(entries, r.e)
			}
		}
		for i := 0; i < n; i++ {
			op := rapid.IntRange(0, 3).Draw(t, "op")
			switch {
			case op <= 1 && len(inPath) < k:
				r := &req{b: uint32(rapid.IntRange(1, 3).Draw(t, "b"))}
				if r.b > maxB {
					maxB = r.b
				}
				now := hx.C.Ms()
				r.expBlk, r.expVal = decide(ms, passes, now, r.b)
				r.task = s.Spawn(func() { r.e, r.blk = sentinel.Entry("a", sentinel.WithBatchCount(r.b)) })
				if p := s.Step(r.task); p != "chain.checked" {
					t.Fatalf("Entry did not reach the admission-path yield point (at %q)", p)
				}
				inPath = append(inPath, r)
				if len(inPath) > maxPark {
					maxPark = len(inPath)
				}
				c.Op("t=%d Begin(batch %d) parked=%d", now, r.b, len(inPath))
			case op == 2 && len(inPath) > 0:
				finish(rapid.IntRange(0, len(inPath)-1).Draw(t, "j"))
			case op == 3:
				dt := uint64(rapid.SampledFrom([]int{1, 100, 499, 500, 1000, 3000}).Draw(t, "dt"))
				hx.C.AddMs(dt)
				c.Op("tick %d", dt)
			}
			// bound: admitted tokens in every rule's aligned window <= T + (k-1)*maxBatch
			now := hx.C.Ms()
			for _, m := range ms {
				var cur int64
				if m.standalone {
					cur = wsum(m.own, now, m.bl, m.iv)
				} else {
					cur = wsum(passes["a"], now, m.bl, m.iv)
				}
				if float64(cur) > m.r.Threshold+float64((k-1)*int(maxB)) && cur > 0 {
					t.Fatalf("t=%d window of rule %s holds %d admitted tokens > T(%v)+(k-1)*maxBatch(%d)", now, m.r.ID, cur, m.r.Threshold, maxB)
				}
			}
		}
		for len(inPath) > 0 {
			finish(0)
		}
		c.ClassIf(maxPark >= 2, ">=2-in-admission-path")
		if maxPark >= 2 {
			c.NonTrivial()
		}
	})
}

// ---- known finding P4 (recorded, not repaired) -----------------------------------------------------

func TestP_KnownP4(t *testing.T) {
	hx.Plain(t, func(c *hx.Case) {
		hx.Reset(hx.Epoch)
		flow.LoadRules([]*flow.Rule{{Resource: "a", TokenCalculateStrategy: flow.Direct, ControlBehavior: flow.Reject, Threshold: 2,
			StatIntervalInMs: 3000, RelationStrategy: flow.AssociatedResource, RefResource: "b"}})
		for i := 0; i < 5; i++ {
			if e, _ := sentinel.Entry("b"); e != nil {
				e.Exit()
			}
		}
		e, blk := sentinel.Entry("a")
		if e != nil {
			e.Exit()
		}
		c.Op("rule on a: associated to b, I=3000 (stand-alone), T=2; 5 passes on b; then Entry(a)")
		hx.Witness(t, "C02", "P4", "associated rule with a stand-alone (non-reusable) window: 5 admitted requests on the referenced resource b do not limit a (window is fed by a's own traffic)", blk == nil)
		c.NonTrivial()
	})
}
