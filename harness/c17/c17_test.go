// C17: metric log is searchable, bounded, and survives truncation at any byte.
package c17

import (
	"fmt"
	"os"
	"path/filepath"
	"regexp"
	"sort"
	"strconv"
	"strings"
	"testing"

	"github.com/alibaba/sentinel-golang/core/base"
	"github.com/alibaba/sentinel-golang/core/config"
	"github.com/alibaba/sentinel-golang/core/log/metric"
	"pgregory.net/rapid"

	"verif/harness/hx"
)

var root string

func TestMain(m *testing.M) {
	var err error
	root, err = os.MkdirTemp("", "verif-c17-")
	if err != nil {
		panic(err)
	}
	defer os.RemoveAll(root)
	hx.MainWith(m, "C17", func() { os.RemoveAll(root) })
}

func key(it *base.MetricItem) string {
	return fmt.Sprintf("%d|%s|%d|%d|%d|%d|%d|%d|%d|%d", it.Timestamp, it.Resource, it.PassQps, it.BlockQps, it.CompleteQps, it.ErrorQps, it.AvgRt, it.OccupiedPassQps, it.Concurrency, it.Classification)
}

// the base name of a metric log file carries the application name with its dots replaced (a dot separates the date and
// the roll index from the base name), whatever the configured name
var nameRe = regexp.MustCompile(`^[^.]+-metrics\.log\.(\d{4}-\d{2}-\d{2})(?:\.(\d+))?$`)

// appName is the application name of the running case.
var appName = "app"

// dataFiles: the retained data files in log order (date, then roll number), by an independent reading of the directory.
func dataFiles(dir string) []string {
	ents, _ := os.ReadDir(dir)
	type f struct {
		name, date string
		n          int
	}
	var fs []f
	for _, e := range ents {
		m := nameRe.FindStringSubmatch(e.Name())
		if m == nil {
			continue
		}
		n := 0
		if m[2] != "" {
			n, _ = strconv.Atoi(m[2])
		}
		fs = append(fs, f{e.Name(), m[1], n})
	}
	sort.Slice(fs, func(i, j int) bool {
		if fs[i].date != fs[j].date {
			return fs[i].date < fs[j].date
		}
		return fs[i].n < fs[j].n
	})
	var out []string
	for _, x := range fs {
		out = append(out, filepath.Join(dir, x.name))
	}
	return out
}

type line struct {
	key  string
	sec  uint64
	res  string
	file int
	end  int // byte offset just after the line's newline, in its file
}

// plainRead parses every retained file with nothing but strings.Split (the independent reader).
func plainRead(files []string) []line {
	var out []line
	for fi, fn := range files {
		b, _ := os.ReadFile(fn)
		off := 0
		for _, l := range strings.SplitAfter(string(b), "\n") {
			if l == "" {
				continue
			}
			off += len(l)
			if !strings.HasSuffix(l, "\n") {
				continue // torn
			}
			p := strings.Split(strings.TrimSuffix(l, "\n"), "|")
			if len(p) != 11 {
				continue
			}
			ts, _ := strconv.ParseUint(p[0], 10, 64)
			out = append(out, line{key: strings.Join(append([]string{p[0]}, p[2:]...), "|"), sec: ts / 1000, res: p[2], file: fi, end: off})
		}
	}
	return out
}

type idxEntry struct {
	sec uint64
	off uint64
	end int // byte offset just after this entry in the idx file
}

func readIdx(fn string) []idxEntry {
	b, _ := os.ReadFile(fn + ".idx")
	var out []idxEntry
	for p := 0; p+16 <= len(b); p += 16 {
		var sec, off uint64
		for q := 0; q < 8; q++ {
			sec = sec<<8 | uint64(b[p+q])
			off = off<<8 | uint64(b[p+8+q])
		}
		out = append(out, idxEntry{sec, off, p + 16})
	}
	return out
}

var resources = []string{"a", "bb", "res c", "日本語 リソース", strings.Repeat("x", 200), "a/b?c=d&e", "tab\there", "a", "bb", strings.Repeat("long-resource-name/", 500)} // the last one: a 9.5 KB name (a line longer than any fixed read buffer)

func drawItems(t *rapid.T) []*base.MetricItem {
	n := rapid.IntRange(1, 3).Draw(t, "nitems")
	var items []*base.MetricItem
	for j := 0; j < n; j++ {
		big := rapid.IntRange(0, 5).Draw(t, "big") == 0
		it := &base.MetricItem{Resource: rapid.SampledFrom(resources).Draw(t, "res"), PassQps: uint64(rapid.IntRange(0, 100000).Draw(t, "pass")), BlockQps: uint64(rapid.IntRange(0, 99).Draw(t, "block")),
			CompleteQps: uint64(rapid.IntRange(0, 9).Draw(t, "complete")), ErrorQps: uint64(rapid.IntRange(0, 9).Draw(t, "error")), AvgRt: uint64(rapid.IntRange(0, 5000).Draw(t, "rt")),
			OccupiedPassQps: uint64(rapid.IntRange(0, 3).Draw(t, "occupied")), Concurrency: uint32(rapid.IntRange(0, 50).Draw(t, "conc")), Classification: int32(rapid.IntRange(0, 3).Draw(t, "class"))}
		if big {
			it.PassQps, it.AvgRt, it.Concurrency, it.OccupiedPassQps = 1<<64-1, 1<<63, 1<<32-1, 1<<64-1
		}
		items = append(items, it)
	}
	return items
}

func keysOf(items []*base.MetricItem) []string {
	out := make([]string, 0, len(items))
	for _, it := range items {
		out = append(out, key(it))
	}
	return out
}

// expected result of a time-range query from the independent reader's view
func expectRange(ret []line, begin, end uint64, res string) []string {
	var out []string
	for _, l := range ret {
		if l.sec >= begin/1000 && l.sec <= end/1000 && (res == "" || res == l.res) {
			out = append(out, l.key)
		}
	}
	return out
}

// checkLimit: got must be a prefix of the items from begin on, at least min(maxLines, available) long, ending at a second boundary.
func checkLimit(ret []line, begin uint64, maxLines uint32, got []string) string {
	var from []line
	for _, l := range ret {
		if l.sec >= begin/1000 {
			from = append(from, l)
		}
	}
	if len(got) > len(from) {
		return fmt.Sprintf("returned %d items, only %d retained from the begin time on", len(got), len(from))
	}
	for i := range got {
		if got[i] != from[i].key {
			return fmt.Sprintf("item %d is %s, the %d-th retained item from the begin time on is %s (lost, duplicated or reordered)", i, got[i], i, from[i].key)
		}
	}
	need := int(maxLines)
	if len(from) < need {
		need = len(from)
	}
	if len(got) < need {
		return fmt.Sprintf("returned %d items, %d are available and %d were asked for", len(got), len(from), maxLines)
	}
	if len(got) > int(maxLines) && maxLines > 0 { // may only run over to complete the second of the maxLines-th item
		s := from[maxLines-1].sec
		for i := int(maxLines); i < len(got); i++ {
			if from[i].sec != s {
				return fmt.Sprintf("returned %d items for a limit of %d, running over into another second", len(got), maxLines)
			}
		}
	}
	return ""
}

type query struct {
	limit      bool
	begin, end uint64
	res        string
	maxLines   uint32
}

func run(s metric.MetricSearcher, q query) (keys []string, err error, panicked interface{}) {
	defer func() {
		if r := recover(); r != nil {
			panicked = r
		}
	}()
	var items []*base.MetricItem
	if q.limit {
		items, err = s.FindFromTimeWithMaxLines(q.begin, q.maxLines)
	} else {
		items, err = s.FindByTimeAndResource(q.begin, q.end, q.res)
	}
	return keysOf(items), err, nil
}

func copyDir(src, dst string) {
	os.MkdirAll(dst, 0o755)
	ents, _ := os.ReadDir(src)
	for _, e := range ents {
		b, _ := os.ReadFile(filepath.Join(src, e.Name()))
		os.WriteFile(filepath.Join(dst, e.Name()), b, 0o644)
	}
}

var caseNo int

func TestMetricLog(t *testing.T) {
	hx.Check(t, hx.N{Quick: 800, Thorough: 3000}, func(t *rapid.T, c *hx.Case) {
		caseNo++
		dir := filepath.Join(root, fmt.Sprintf("%s-%d", os.Getenv("VERIF_SHARD"), caseNo))
		os.MkdirAll(dir, 0o755)
		defer os.RemoveAll(dir)
		ent := config.NewDefaultConfig()
		ent.Sentinel.Log.Dir = dir
		config.ResetGlobalConfig(ent)
		defer config.ResetGlobalConfig(config.NewDefaultConfig())
		// creation instant: anywhere in a day, often just before midnight (UTC)
		day := hx.Epoch - hx.Epoch%86400000
		t0 := day + uint64(rapid.IntRange(0, 86399999).Draw(t, "t0"))
		if rapid.IntRange(0, 3).Draw(t, "nearMidnight") == 0 {
			t0 = day + 86400000 - uint64(rapid.IntRange(1, 5000).Draw(t, "beforeMidnight"))
		}
		hx.C.SetMs(t0)
		appName = rapid.SampledFrom([]string{"app", "app", "a.b", "com.example.shop", "svc-1.eu.west.prod", "orders[2]", "shop*", "a?b"}).Draw(t, "appName")
		defer func() { appName = "app" }()
		c.ClassIf(strings.Count(appName, ".") > 1, "application-name-with-several-dots")
		maxSize := uint64(rapid.SampledFrom([]int{100, 300, 1000, 100000}).Draw(t, "maxSize"))
		maxFiles := uint32(rapid.IntRange(1, 4).Draw(t, "maxFiles"))
		w, err := metric.NewDefaultMetricLogWriterOfApp(maxSize, maxFiles, appName)
		if err != nil {
			t.Fatalf("writer: %v", err)
		}
		defer w.(interface{ Close() error }).Close()
		s, err := metric.NewDefaultMetricSearcher(dir, metric.FormMetricFileName(appName, false))
		if err != nil {
			t.Fatalf("searcher: %v", err)
		}
		c.Op("t0=%d maxSize=%d maxFiles=%d", t0, maxSize, maxFiles)
		exP13, exP14 := hx.Known("P13"), hx.Known("P14")
		var accepted []string
		latest := t0 / 1000
		ts := t0
		if exP13 {
			ts += 1000
			c.Excluded("P13")
		}
		rolls, removals, sameSecAfterRoll, queriesOnSearcher := 0, 0, false, 0
		prevFiles := dataFiles(dir)
		nops := rapid.IntRange(1, 25).Draw(t, "ops")
		for i := 0; i < nops; i++ {
			if rapid.IntRange(0, 2).Draw(t, "op") < 2 {
				step := uint64(rapid.SampledFrom([]int{0, 0, 1, 500, 1000, 1000, 2000, 3600000}).Draw(t, "dt"))
				if rapid.IntRange(0, 9).Draw(t, "toMidnight") == 0 {
					step = 86400000 - ts%86400000 + uint64(rapid.IntRange(0, 1500).Draw(t, "past"))
				}
				if exP14 && (ts+step)/1000 == ts/1000 {
					step = 1000 // known finding P14: never continue a second (it may straddle a roll)
					c.Excluded("P14")
				}
				ts += step
				items := drawItems(t)
				err := w.Write(ts, items)
				c.Op("Write(ts=+%d, %d items) -> %v", ts-t0, len(items), err)
				if err != nil {
					t.Fatalf("Write(ts=%d): %v", ts, err)
				}
				if ts/1000 >= latest {
					accepted = append(accepted, keysOf(items)...)
					latest = ts / 1000
				}
				files := dataFiles(dir)
				if len(files) > int(maxFiles) {
					t.Fatalf("%d metric log files after a write, the configured maximum is %d: %v", len(files), maxFiles, files)
				}
				if len(files) > 0 && len(prevFiles) > 0 && files[len(files)-1] != prevFiles[len(prevFiles)-1] {
					rolls++
					if files[0] != prevFiles[0] {
						removals++
					}
					ret := plainRead(files)
					if len(ret) > 0 && len(accepted) > len(ret) {
						// the first line of the new... nothing: same-second continuation is detected on the next write
					}
				}
				if rolls > 0 && step == 0 {
					sameSecAfterRoll = true
				}
				prevFiles = files
			} else {
				q := query{limit: rapid.Bool().Draw(t, "limitQuery")}
				span := ts - t0 + 4000
				q.begin = t0 - 2000 + uint64(rapid.IntRange(0, int(span)).Draw(t, "begin"))
				if span > 10000000 && rapid.Bool().Draw(t, "beginNearEnd") {
					q.begin = ts - uint64(rapid.IntRange(0, 5000).Draw(t, "back"))
				}
				if q.limit {
					q.maxLines = uint32(rapid.IntRange(1, 10).Draw(t, "maxLines"))
				} else {
					q.end = q.begin + uint64(rapid.SampledFrom([]int{0, 999, 1000, 5000, 4000000, 100000000}).Draw(t, "range"))
					q.res = rapid.SampledFrom(append([]string{"", ""}, resources...)).Draw(t, "qres")
				}
				got, err, pn := run(s, q)
				queriesOnSearcher++
				c.Op("query %+v -> %d items err=%v", q, len(got), err)
				if pn != nil || err != nil {
					t.Fatalf("query %+v on an intact log: err=%v panic=%v", q, err, pn)
				}
				ret := plainRead(dataFiles(dir))
				if q.limit {
					if msg := checkLimit(ret, q.begin, q.maxLines, got); msg != "" {
						t.Fatalf("FindFromTimeWithMaxLines(begin=+%d, %d): %s", int64(q.begin)-int64(t0), q.maxLines, msg)
					}
				} else {
					want := expectRange(ret, q.begin, q.end, q.res)
					if fmt.Sprint(got) != fmt.Sprint(want) {
						t.Fatalf("FindByTimeAndResource(+%d..+%d, %q) returned %d items, the retained files hold %d matching ones\n got  %v\n want %v", int64(q.begin)-int64(t0), int64(q.end)-int64(t0), q.res, len(got), len(want), got, want)
					}
				}
			}
			// retained is a suffix of the accepted sequence: nothing lost except by whole-file removal, nothing duplicated or altered
			ret := plainRead(dataFiles(dir))
			if len(ret) > len(accepted) {
				t.Fatalf("the files hold %d items, only %d were accepted", len(ret), len(accepted))
			}
			tail := accepted[len(accepted)-len(ret):]
			for j := range ret {
				if ret[j].key != tail[j] {
					t.Fatalf("retained item %d is %s, the accepted sequence has %s there (lost, duplicated or altered)", j, ret[j].key, tail[j])
				}
			}
		}
		c.ClassIf(rolls > 0, "roll")
		c.ClassIf(removals > 0, "file-removal")
		c.ClassIf(sameSecAfterRoll, "same-second-after-roll")
		if (rolls > 0 && queriesOnSearcher >= 2) || removals > 0 || sameSecAfterRoll {
			c.NonTrivial()
		}

		// ---- crash part: cut the last data file and its index at every byte (<= 4 KiB) ----
		if rapid.IntRange(0, 2).Draw(t, "sweep") > 0 {
			return
		}
		w.(interface{ Close() error }).Close()
		files := dataFiles(dir)
		if len(files) == 0 {
			return
		}
		lastIdx := len(files) - 1
		all := plainRead(files)
		acceptedSet := map[string]bool{}
		for _, k := range accepted {
			acceptedSet[k] = true
		}
		// queries: one from before all data, one beginning inside the last file
		qs := []query{{begin: t0 - 5000, end: ts + 5000}, {limit: true, begin: t0 - 5000, maxLines: 1000}}
		var inLast []line
		for _, l := range all {
			if l.file == lastIdx {
				inLast = append(inLast, l)
			}
		}
		if len(inLast) > 0 {
			b := inLast[rapid.IntRange(0, len(inLast)-1).Draw(t, "beginInLast")].sec * 1000
			qs = append(qs, query{begin: b, end: ts + 5000}, query{limit: true, begin: b, maxLines: 1000})
		}
		fresh := func(d string) metric.MetricSearcher {
			x, _ := metric.NewDefaultMetricSearcher(d, metric.FormMetricFileName(appName, false))
			return x
		}
		baseline := make([][]string, len(qs))
		for qi, q := range qs {
			got, err, pn := run(fresh(dir), q)
			if err != nil || pn != nil {
				t.Fatalf("baseline query failed: %v %v", err, pn)
			}
			baseline[qi] = got
		}
		lineEnd := map[string]int{} // key -> end offset, for lines of the last file
		for _, l := range inLast {
			lineEnd[l.key] = l.end
		}
		idx := readIdx(files[lastIdx])
		// which idx entry of the last file does a query starting at beginSec need? (the first with sec >= beginSec, provided no earlier file serves the query)
		neededEntryEnd := func(q query) int {
			for fi := 0; fi < lastIdx; fi++ {
				for _, e := range readIdx(files[fi]) {
					if e.sec >= q.begin/1000 {
						return 0 // served by an earlier file: the last file is read sequentially, its index is not consulted
					}
				}
			}
			for _, e := range idx {
				if e.sec >= q.begin/1000 {
					return e.end
				}
			}
			return 0
		}
		for which := 0; which < 2; which++ {
			cd := filepath.Join(root, fmt.Sprintf("%s-%d-cut%d", os.Getenv("VERIF_SHARD"), caseNo, which))
			os.RemoveAll(cd)
			copyDir(dir, cd)
			target := filepath.Join(cd, filepath.Base(files[lastIdx]))
			if which == 1 {
				target += ".idx"
			}
			st, _ := os.Stat(target)
			size := int(st.Size())
			var cuts []int
			if size <= 4096 {
				for k := size; k >= 0; k-- {
					cuts = append(cuts, k)
				}
			} else {
				seen := map[int]bool{}
				add := func(k int) {
					if k >= 0 && k <= size && !seen[k] {
						seen[k] = true
						cuts = append(cuts, k)
					}
				}
				for _, l := range inLast {
					add(l.end - 1)
					add(l.end)
					add(l.end + 1)
				}
				for i := 0; i < 256; i++ {
					add(rapid.IntRange(0, size).Draw(t, "cut"))
				}
				sort.Sort(sort.Reverse(sort.IntSlice(cuts)))
			}
			for _, k := range cuts { // one copy, truncated in place from the end towards 0
				os.Truncate(target, int64(k))
				for qi, q := range qs {
					got, err, pn := run(fresh(cd), q)
					c.Count("cut_points_queried", 1)
					if err != nil || pn != nil {
						t.Fatalf("searching a log whose %s file is cut at byte %d of %d failed: err=%v panic=%v (query %+v)", []string{"data", "index"}[which], k, size, err, pn, q)
					}
					gotSet := map[string]bool{}
					for _, g := range got {
						if !acceptedSet[g] {
							t.Fatalf("%s file cut at byte %d of %d: the searcher returned an item that was never written: %s", []string{"data", "index"}[which], k, size, g)
						}
						gotSet[g] = true
					}
					need := neededEntryEnd(q)
					for _, b := range baseline[qi] {
						end, inLastFile := lineEnd[b]
						dataOK := which == 1 || !inLastFile || end <= k
						idxOK := which == 0 || need <= k
						if dataOK && idxOK && !gotSet[b] {
							t.Fatalf("%s file cut at byte %d of %d: item %s lies wholly before the cut (line end %d, index entry end %d) but is no longer returned (query %+v)", []string{"data", "index"}[which], k, size, b, end, need, q)
						}
					}
				}
			}
			// ---- crash, restart, continue: after the cut the writer comes back, logs further seconds, and ONE searcher
			// answers a query that begins inside the damaged file and then queries about the time after the restart ----
			for rep := 0; rep < 2 && len(inLast) > 0; rep++ {
				cd2 := cd + "-restart"
				os.RemoveAll(cd2)
				copyDir(dir, cd2)
				target2 := filepath.Join(cd2, filepath.Base(files[lastIdx]))
				if which == 1 {
					target2 += ".idx"
				}
				k := rapid.IntRange(0, size).Draw(t, "restartCut")
				os.Truncate(target2, int64(k))
				ent2 := config.NewDefaultConfig()
				ent2.Sentinel.Log.Dir = cd2
				config.ResetGlobalConfig(ent2)
				ts2 := ts + uint64(rapid.SampledFrom([]int{1000, 1000, 3000, 60000}).Draw(t, "downtime"))
				hx.C.SetMs(ts2)
				w2, err := metric.NewDefaultMetricLogWriterOfApp(maxSize, maxFiles, appName)
				if err != nil {
					t.Fatalf("writer restart after a cut at byte %d: %v", k, err)
				}
				var post []string
				nw := rapid.IntRange(1, 4).Draw(t, "writesAfterRestart")
				for i := 0; i < nw; i++ {
					items := drawItems(t)
					if err := w2.Write(ts2+uint64(i)*1000, items); err != nil {
						t.Fatalf("Write after restart: %v", err)
					}
					post = append(post, keysOf(items)...)
				}
				w2.(interface{ Close() error }).Close()
				onDisk := map[string]bool{}
				for _, l := range plainRead(dataFiles(cd2)) {
					onDisk[l.key] = true
				}
				one := fresh(cd2)
				seq := []query{{begin: inLast[rapid.IntRange(0, len(inLast)-1).Draw(t, "beginInCutFile")].sec * 1000, end: ts2 + 100000},
					{begin: ts2, end: ts2 + 100000}, {limit: true, begin: ts2, maxLines: 1000}, {begin: ts2 + uint64(nw-1)*1000, end: ts2 + 100000}}
				for qi, q := range seq {
					got, err1, pn1 := run(one, q)
					ref, err2, pn2 := run(fresh(cd2), q)
					c.Count("queries_after_restart", 1)
					if pn1 != nil || pn2 != nil {
						t.Fatalf("%s file cut at byte %d, writer restarted: query %d %+v panicked: %v %v", []string{"data", "index"}[which], k, qi, q, pn1, pn2)
					}
					if (err1 == nil) != (err2 == nil) || fmt.Sprint(got) != fmt.Sprint(ref) {
						t.Fatalf("%s file cut at byte %d of %d, writer restarted at +%d ms and wrote %d more seconds: query %d %+v on the searcher that answered the earlier queries returns %v (err %v), a fresh searcher returns %v (err %v)",
							[]string{"data", "index"}[which], k, size, ts2-ts, nw, qi, q, got, err1, ref, err2)
					}
					if qi == 1 && err1 == nil {
						gotSet := map[string]bool{}
						for _, g := range got {
							gotSet[g] = true
						}
						for _, pk := range post {
							if onDisk[pk] && !gotSet[pk] {
								t.Fatalf("%s file cut at byte %d of %d, writer restarted and wrote %d more seconds: item %s written after the restart is on disk but is not returned by %+v (got %v)", []string{"data", "index"}[which], k, size, nw, pk, q, got)
							}
						}
					}
				}
				os.RemoveAll(cd2)
			}
			ent3 := config.NewDefaultConfig()
			ent3.Sentinel.Log.Dir = dir
			config.ResetGlobalConfig(ent3)
			hx.C.SetMs(ts)
			os.RemoveAll(cd)
		}
		c.Class("truncation-sweep")
	})
}

// FuzzMetricLine: arbitrary lines never panic the line parser; a line it accepts re-encodes to a line that
// parses to the same item (codec round trip). Native fuzzing in the thorough tier, seed corpus in quick.
func FuzzMetricLine(f *testing.F) {
	for _, s := range []string{"", "|", "1|t|r|1|2|3|4|5", "1900000000000|2030-03-17 17:46:40|res|1|2|3|4|5|6|7|8", "x|t|r|1|2|3|4|5", "1|t|r|-1|2|3|4|5",
		"1|t|r|1|2|3|4|5|6|7|8|9|10", "1|t|r|1|2|3|4|18446744073709551616", "1|t||0|0|0|0|0|0|4294967296|0", "1|t|r|1|2|3|4|5|6|7|2147483648"} {
		f.Add(s)
	}
	f.Fuzz(func(t *testing.T, line string) {
		it, err := base.MetricItemFromFatString(line)
		if err != nil {
			return
		}
		enc, err := it.ToFatString()
		if err != nil {
			t.Fatalf("re-encoding failed: %v", err)
		}
		it2, err := base.MetricItemFromFatString(enc)
		if err != nil {
			t.Fatalf("re-encoded line %q does not parse: %v", enc, err)
		}
		if key(it) != key(it2) {
			t.Fatalf("codec round trip changed the item: %s -> %s", key(it), key(it2))
		}
	})
}

// TestSparseResourceInBigFile: one big log file (no roll), about a thousand busy resources per second for a hundred-odd
// seconds, and one sparse resource with a single line in some of the seconds (always in the first and the last). A search
// by that resource over the whole range returns every one of its lines, however many lines of other resources lie between
// them (the reader's own safety limits are about returned items, far above what is asked for here).
func TestSparseResourceInBigFile(t *testing.T) {
	hx.Check(t, hx.N{Quick: 2, Thorough: 6}, func(t *rapid.T, c *hx.Case) {
		caseNo++
		dir := filepath.Join(root, fmt.Sprintf("big-%s-%d", os.Getenv("VERIF_SHARD"), caseNo))
		os.MkdirAll(dir, 0o755)
		defer os.RemoveAll(dir)
		ent := config.NewDefaultConfig()
		ent.Sentinel.Log.Dir = dir
		config.ResetGlobalConfig(ent)
		defer config.ResetGlobalConfig(config.NewDefaultConfig())
		t0 := hx.Epoch - hx.Epoch%86400000 + 3600000 // far from midnight: one file
		hx.C.SetMs(t0)
		w, err := metric.NewDefaultMetricLogWriterOfApp(1<<30, 3, appName)
		if err != nil {
			t.Fatalf("writer: %v", err)
		}
		defer w.(interface{ Close() error }).Close()
		secs := rapid.IntRange(101, 112).Draw(t, "seconds")
		busy := rapid.IntRange(1000, 1100).Draw(t, "busyResourcesPerSecond")
		sparseAt := rapid.IntRange(0, busy).Draw(t, "positionOfTheSparseLine")
		want := 0
		for s := 0; s < secs; s++ {
			ts := t0 + 1000 + uint64(s)*1000
			items := make([]*base.MetricItem, 0, busy+1)
			has := s == 0 || s == secs-1 || rapid.IntRange(0, 2).Draw(t, "sparseInThisSecond") > 0
			for k := 0; k < busy; k++ {
				if has && k == sparseAt {
					items = append(items, &base.MetricItem{Resource: "sparse", Timestamp: ts - ts%1000, PassQps: uint64(s + 1)})
				}
				items = append(items, &base.MetricItem{Resource: fmt.Sprint("busy-", k), Timestamp: ts - ts%1000, PassQps: 1})
			}
			if has && sparseAt == busy {
				items = append(items, &base.MetricItem{Resource: "sparse", Timestamp: ts - ts%1000, PassQps: uint64(s + 1)})
			}
			if has {
				want++
			}
			if err := w.Write(ts, items); err != nil {
				t.Fatalf("Write: %v", err)
			}
		}
		if files := dataFiles(dir); len(files) != 1 {
			t.Fatalf("expected one log file, found %v", files)
		}
		s, err := metric.NewDefaultMetricSearcher(dir, metric.FormMetricFileName(appName, false))
		if err != nil {
			t.Fatalf("searcher: %v", err)
		}
		got, err := s.FindByTimeAndResource(t0, t0+uint64(secs+2)*1000, "sparse")
		if err != nil {
			t.Fatalf("search: %v", err)
		}
		c.Op("%d seconds x %d busy resources (%d lines), sparse resource in %d seconds: %d returned", secs, busy, secs*busy, want, len(got))
		if len(got) != want {
			t.Fatalf("the sparse resource has %d lines among %d lines of one file; the search by resource over the whole range returned %d", want, secs*busy+want, len(got))
		}
		for i, it := range got {
			if it.Resource != "sparse" || (i > 0 && it.Timestamp < got[i-1].Timestamp) {
				t.Fatalf("item %d: %+v (wrong resource or out of timestamp order)", i, it)
			}
		}
		c.NonTrivial()
	})
}
