// C14: reloading rules does not disturb the runtime state of unchanged rules.
package c14

import (
	"errors"
	"fmt"
	"testing"

	sentinel "github.com/alibaba/sentinel-golang/api"
	"github.com/alibaba/sentinel-golang/core/base"
	cb "github.com/alibaba/sentinel-golang/core/circuitbreaker"
	"github.com/alibaba/sentinel-golang/core/flow"
	"github.com/alibaba/sentinel-golang/core/hotspot"
	"pgregory.net/rapid"

	"verif/harness/hx"
	"verif/harness/model"
)

func TestMain(m *testing.M) { hx.Main(m, "C14") }

// ---- the rule under test, per module ------------------------------------------------------------

const (
	mFlow = iota
	mBreaker
	mHotspot
)

type scenario struct {
	module int
	// exactly one of these is the unchanged rule r on resource "a"
	fr *flow.Rule
	br *cb.Rule
	hr *hotspot.Rule
	// the rule object is listed twice (same pointer) in every load
	listedTwice bool
}

func copyFlow(r *flow.Rule) *flow.Rule { x := *r; return &x }
func copyCb(r *cb.Rule) *cb.Rule       { x := *r; return &x }
func copyHot(r *hotspot.Rule) *hotspot.Rule {
	x := *r
	if r.SpecificItems != nil {
		x.SpecificItems = map[interface{}]int64{}
		for k, v := range r.SpecificItems {
			x.SpecificItems[k] = v
		}
	}
	return &x
}

func drawScenario(t *rapid.T, c *hx.Case) scenario {
	s := scenario{module: rapid.IntRange(0, 2).Draw(t, "module"), listedTwice: rapid.IntRange(0, 4).Draw(t, "listedTwice") == 0}
	c.ClassIf(s.listedTwice, "rule-object-listed-twice")
	switch s.module {
	case mFlow:
		r := &flow.Rule{ID: "r", Resource: "a"}
		switch rapid.IntRange(0, 3).Draw(t, "flowKind") {
		case 0: // reject, default window
			r.Threshold = float64(rapid.IntRange(1, 4).Draw(t, "T"))
			r.StatIntervalInMs = uint32(rapid.SampledFrom([]int{0, 1000, 2000}).Draw(t, "I"))
		case 1: // reject, stand-alone window
			r.Threshold = float64(rapid.IntRange(1, 4).Draw(t, "T"))
			r.StatIntervalInMs = uint32(rapid.SampledFrom([]int{700, 3000, 12000}).Draw(t, "I"))
		case 2: // throttling
			r.ControlBehavior = flow.Throttling
			r.Threshold = float64(rapid.SampledFrom([]int{1, 2, 5}).Draw(t, "T"))
			r.MaxQueueingTimeMs = uint32(rapid.SampledFrom([]int{0, 500, 2000}).Draw(t, "Q"))
		case 3: // warm-up
			r.TokenCalculateStrategy = flow.WarmUp
			r.Threshold = float64(rapid.SampledFrom([]int{6, 10, 20}).Draw(t, "T"))
			r.WarmUpPeriodSec = uint32(rapid.IntRange(2, 6).Draw(t, "P"))
			r.WarmUpColdFactor = uint32(rapid.SampledFrom([]int{0, 2, 3}).Draw(t, "CF"))
			if r.WarmUpColdFactor == 0 && hx.Known("P12") {
				r.WarmUpColdFactor = 3
				c.Excluded("P12")
			}
		}
		s.fr = r
		c.Op("flow rule %+v", *r)
	case mBreaker:
		st := rapid.IntRange(0, 2).Draw(t, "strategy")
		r := &cb.Rule{Id: "r", Resource: "a", Strategy: cb.Strategy(st), RetryTimeoutMs: uint32(rapid.SampledFrom([]int{50, 500, 3000}).Draw(t, "retry")),
			MinRequestAmount: uint64(rapid.IntRange(1, 3).Draw(t, "min")), StatIntervalMs: uint32(rapid.SampledFrom([]int{1000, 5000}).Draw(t, "interval")),
			StatSlidingWindowBucketCount: uint32(rapid.SampledFrom([]int{0, 1, 5, 3, 7}).Draw(t, "buckets")), MaxAllowedRtMs: 10, ProbeNum: uint64(rapid.SampledFrom([]int{0, 2}).Draw(t, "probeNum"))}
		if st == model.ErrorCount {
			r.Threshold = float64(rapid.IntRange(1, 3).Draw(t, "count"))
		} else {
			r.Threshold = rapid.SampledFrom([]float64{0.3, 0.5, 1}).Draw(t, "ratio")
		}
		s.br = r
		c.Op("breaker rule %+v", *r)
	case mHotspot:
		r := &hotspot.Rule{ID: "r", Resource: "a", ParamIndex: 0, Threshold: int64(rapid.IntRange(1, 3).Draw(t, "T")), DurationInSec: int64(rapid.IntRange(1, 3).Draw(t, "D"))}
		switch rapid.IntRange(0, 3).Draw(t, "hotKind") {
		case 3:
			r.MetricType, r.ControlBehavior = hotspot.Concurrency, hotspot.Throttling
		case 0:
			r.MetricType, r.ControlBehavior, r.BurstCount = hotspot.QPS, hotspot.Reject, int64(rapid.IntRange(0, 2).Draw(t, "burst"))
		case 1:
			r.MetricType, r.ControlBehavior, r.MaxQueueingTimeMs = hotspot.QPS, hotspot.Throttling, int64(rapid.SampledFrom([]int{0, 500, 3000}).Draw(t, "Q"))
		case 2:
			r.MetricType = hotspot.Concurrency
		}
		if rapid.Bool().Draw(t, "specific") {
			r.SpecificItems = map[interface{}]int64{"v1": int64(rapid.IntRange(0, 4).Draw(t, "st"))}
		} else if hx.Known("P12") {
			r.SpecificItems = map[interface{}]int64{}
			c.Excluded("P12")
		}
		s.hr = r
		c.Op("hotspot rule %+v", *r)
	}
	return s
}

// inert builds a rule on resource a that can never influence a decision of this history but is
// statistic-compatible with r (so that a greedy statistic re-use would hand r's state to it).
func (s scenario) inert(id string, statCompatible bool) interface{} {
	switch s.module {
	case mFlow:
		x := &flow.Rule{ID: id, Resource: "a", Threshold: 1e9, StatIntervalInMs: s.fr.StatIntervalInMs}
		if !statCompatible {
			x.StatIntervalInMs = 5000
		}
		return x
	case mBreaker:
		x := copyCb(s.br)
		x.Id = id
		x.MinRequestAmount = 1e9 // never trips; differs from r in this one field only
		if !statCompatible {
			x.StatIntervalMs = 7000
		}
		return x
	default:
		x := copyHot(s.hr)
		x.ID = id
		x.Threshold = 1e9
		x.SpecificItems = map[interface{}]int64{}
		if x.MetricType == hotspot.QPS && x.ControlBehavior == hotspot.Throttling {
			x.Threshold = 1e6 // spacing floor(batch*D*1000/T) = 0 ms: never waits, never blocks
		}
		if !statCompatible {
			x.ParamsMaxCapacity = 777
		}
		return x
	}
}

// layout of one load: which extra rules surround r.
type layout struct {
	before, after []string // ids of inert rules on a placed before / after r
	compatible    map[string]bool
	others        int  // rules on other resources (arbitrary, active)
	perResource   bool // LoadRulesOfResource(a, ...) instead of the whole-set load
}

func drawLayout(t *rapid.T, tag string, allowBeforeCompatible bool) layout {
	l := layout{compatible: map[string]bool{}}
	nb := rapid.IntRange(0, 2).Draw(t, "nBefore")
	na := rapid.IntRange(0, 2).Draw(t, "nAfter")
	for i := 0; i < nb; i++ {
		id := fmt.Sprintf("%s-b%d", tag, i)
		l.before = append(l.before, id)
		l.compatible[id] = allowBeforeCompatible && rapid.Bool().Draw(t, "compat")
	}
	for i := 0; i < na; i++ {
		id := fmt.Sprintf("%s-a%d", tag, i)
		l.after = append(l.after, id)
		l.compatible[id] = rapid.Bool().Draw(t, "compat")
	}
	l.others = rapid.IntRange(0, 2).Draw(t, "others")
	l.perResource = rapid.Bool().Draw(t, "perResource")
	return l
}

func (s scenario) apply(t *rapid.T, l layout, first bool) {
	var ids []string
	ids = append(ids, l.before...)
	ids = append(ids, "r")
	ids = append(ids, l.after...)
	switch s.module {
	case mFlow:
		var onA, all []*flow.Rule
		for _, id := range ids {
			if id == "r" {
				x := copyFlow(s.fr)
				onA = append(onA, x)
				if s.listedTwice { // the very same rule object listed twice: two controllers with independent state
					onA = append(onA, x)
				}
			} else {
				onA = append(onA, s.inert(id, l.compatible[id]).(*flow.Rule))
			}
		}
		all = append(all, onA...)
		for i := 0; i < l.others; i++ {
			all = append(all, &flow.Rule{ID: fmt.Sprint("o", i), Resource: fmt.Sprint("other", i), Threshold: float64(i)})
		}
		var err error
		if l.perResource && !first {
			_, err = flow.LoadRulesOfResource("a", onA)
		} else {
			_, err = flow.LoadRules(all)
		}
		if err != nil {
			t.Fatalf("flow load: %v", err)
		}
		if got := len(flow.GetRulesOfResource("a")); got != len(onA) {
			t.Fatalf("flow: %d rules loaded for a, module reports %d", len(onA), got)
		}
	case mBreaker:
		var onA, all []*cb.Rule
		for _, id := range ids {
			if id == "r" {
				x := copyCb(s.br)
				onA = append(onA, x)
				if s.listedTwice { // the very same rule object listed twice: two controllers with independent state
					onA = append(onA, x)
				}
			} else {
				onA = append(onA, s.inert(id, l.compatible[id]).(*cb.Rule))
			}
		}
		all = append(all, onA...)
		for i := 0; i < l.others; i++ {
			all = append(all, &cb.Rule{Id: fmt.Sprint("o", i), Resource: fmt.Sprint("other", i), Strategy: cb.ErrorCount, RetryTimeoutMs: 10, StatIntervalMs: 1000, Threshold: 1})
		}
		var err error
		if l.perResource && !first {
			_, err = cb.LoadRulesOfResource("a", onA)
		} else {
			_, err = cb.LoadRules(all)
		}
		if err != nil {
			t.Fatalf("breaker load: %v", err)
		}
		if got := len(cb.GetRulesOfResource("a")); got != len(onA) {
			t.Fatalf("breaker: %d rules loaded for a, module reports %d", len(onA), got)
		}
	case mHotspot:
		var onA, all []*hotspot.Rule
		for _, id := range ids {
			if id == "r" {
				x := copyHot(s.hr)
				onA = append(onA, x)
				if s.listedTwice { // the very same rule object listed twice: two controllers with independent state
					onA = append(onA, x)
				}
			} else {
				onA = append(onA, s.inert(id, l.compatible[id]).(*hotspot.Rule))
			}
		}
		all = append(all, onA...)
		for i := 0; i < l.others; i++ {
			all = append(all, &hotspot.Rule{ID: fmt.Sprint("o", i), Resource: fmt.Sprint("other", i), MetricType: hotspot.Concurrency, ParamIndex: 0, Threshold: int64(i)})
		}
		var err error
		if l.perResource && !first {
			_, err = hotspot.LoadRulesOfResource("a", onA)
		} else {
			_, err = hotspot.LoadRules(all)
		}
		if err != nil {
			t.Fatalf("hotspot load: %v", err)
		}
		if got := len(hotspot.GetRulesOfResource("a")); got != len(onA) {
			t.Fatalf("hotspot: %d rules loaded for a, module reports %d", len(onA), got)
		}
	}
}

// ---- history ------------------------------------------------------------------------------------

type hop struct {
	dt    uint64
	kind  int // 0 request (entry+exit), 1 open and hold, 2 exit oldest held
	res   string
	batch uint32
	arg   string
	err   bool
	rt    uint64
}

type outcome struct {
	blocked bool
	btype   base.BlockType
	rule    string
	wait    int64
}

type lis struct{ log []model.Transition }

func (l *lis) OnTransformToClosed(prev cb.State, r cb.Rule) {
	l.log = append(l.log, model.Transition{From: int(prev), To: model.Closed, Rule: r.Id})
}
func (l *lis) OnTransformToOpen(prev cb.State, r cb.Rule, _ interface{}) {
	l.log = append(l.log, model.Transition{From: int(prev), To: model.Open, Rule: r.Id})
}
func (l *lis) OnTransformToHalfOpen(prev cb.State, r cb.Rule) {
	l.log = append(l.log, model.Transition{From: int(prev), To: model.HalfOpen, Rule: r.Id})
}

func ruleKey(r base.SentinelRule) string {
	switch x := r.(type) {
	case *flow.Rule:
		y := *x
		y.ID = ""
		return fmt.Sprintf("flow%+v", y)
	case *cb.Rule:
		y := *x
		y.Id = ""
		return fmt.Sprintf("cb%+v", y)
	case *hotspot.Rule:
		y := *x
		y.ID = ""
		return fmt.Sprintf("hot{%v %v %v %v %v %v %v %v %v %v %v}", y.Resource, y.MetricType, y.ControlBehavior, y.ParamIndex, y.ParamKey, y.Threshold, y.MaxQueueingTimeMs, y.BurstCount, y.DurationInSec, y.ParamsMaxCapacity, len(y.SpecificItems))
	case nil:
		return "nil"
	}
	return fmt.Sprintf("%T", r)
}

// play runs the history; reloadAt maps op index -> layout to (re)load before that op (nil = no reloads).
func play(t *rapid.T, s scenario, t0 uint64, first layout, ops []hop, reloadAt map[int]layout) (trace []outcome, trans []model.Transition, nontrivialState bool) {
	hx.Reset(t0)
	l := &lis{}
	cb.RegisterStateChangeListeners(l)
	s.apply(t, first, true)
	var held []*base.SentinelEntry
	defer func() {
		for _, e := range held {
			e.Exit()
		}
	}()
	sawBlockOrWait := false
	for i, op := range ops {
		hx.C.AddMs(op.dt)
		if lay, ok := reloadAt[i]; ok {
			if sawBlockOrWait || len(l.log) > 0 || len(held) > 0 {
				nontrivialState = true
			}
			s.apply(t, lay, false)
		}
		if op.kind == 1 && op.res != "a" {
			op.kind = 0 // only entries of a are held: what is "the oldest held entry" must not depend on other resources' (active) rules
		}
		switch op.kind {
		case 0, 1:
			hx.C.TakeSlept()
			e, blk := sentinel.Entry(op.res, sentinel.WithBatchCount(op.batch), sentinel.WithArgs(op.arg))
			var w int64
			for _, d := range hx.C.TakeSlept() {
				w += int64(d)
			}
			if op.res == "a" {
				o := outcome{blocked: blk != nil, wait: w}
				if blk != nil {
					o.btype, o.rule = blk.BlockType(), ruleKey(blk.TriggeredRule())
				}
				trace = append(trace, o)
				if blk != nil || w > 0 {
					sawBlockOrWait = true
				}
			}
			if op.kind == 0 {
				hx.C.AddMs(op.rt) // whether admitted or not: both runs must see the same instants
			}
			if e != nil {
				if op.kind == 1 {
					held = append(held, e)
				} else {
					if op.err {
						e.Exit(base.WithError(errors.New("biz")))
					} else {
						e.Exit()
					}
				}
			}
		case 2:
			if len(held) > 0 {
				held[0].Exit()
				held = held[1:]
			}
		}
	}
	return trace, append([]model.Transition{}, l.log...), nontrivialState
}

func drawOps(t *rapid.T, s scenario) []hop {
	n := rapid.IntRange(3, 40).Draw(t, "n")
	var ops []hop
	for i := 0; i < n; i++ {
		op := hop{dt: uint64(rapid.SampledFrom([]int{0, 0, 1, 10, 100, 400, 500, 1000, 1500, 3000}).Draw(t, "dt")), batch: 1, arg: rapid.SampledFrom([]string{"v1", "v1", "v2"}).Draw(t, "arg")}
		op.res = rapid.SampledFrom([]string{"a", "a", "a", "other0"}).Draw(t, "res")
		k := rapid.IntRange(0, 9).Draw(t, "kind")
		switch {
		case k == 8 && s.module == mHotspot:
			op.kind = 1
		case k == 9 && s.module == mHotspot:
			op.kind = 2
		}
		op.err = rapid.IntRange(0, 2).Draw(t, "err") == 0
		op.rt = uint64(rapid.SampledFrom([]int{0, 1, 20}).Draw(t, "rt"))
		if s.module == mFlow && rapid.IntRange(0, 5).Draw(t, "batch2") == 0 {
			op.batch = 2
		}
		ops = append(ops, op)
	}
	return ops
}

// TestReloadInvisible: trace(H with reloads of lists that contain a fresh copy of r) == trace(H without reloads).
func TestReloadInvisible(t *testing.T) {
	hx.Check(t, hx.N{Quick: 15000, Thorough: 160000}, func(t *rapid.T, c *hx.Case) {
		s := drawScenario(t, c)
		t0 := hx.Epoch + uint64(rapid.IntRange(0, 999).Draw(t, "t0"))
		exP18 := hx.Known("P18")
		first := drawLayout(t, "L0", true)
		ops := drawOps(t, s)
		nre := rapid.IntRange(1, 3).Draw(t, "reloads")
		reloadAt := map[int]layout{}
		stolen := false
		for k := 0; k < nre; k++ {
			at := rapid.IntRange(1, len(ops)-1).Draw(t, "at")
			lay := drawLayout(t, fmt.Sprintf("L%d", k+1), !exP18)
			if exP18 {
				c.Excluded("P18")
			}
			for _, id := range lay.before {
				if lay.compatible[id] {
					stolen = true
				}
			}
			reloadAt[at] = lay
			c.Op("reload before op %d: before=%v after=%v compatible=%v others=%d perResource=%v", at, lay.before, lay.after, lay.compatible, lay.others, lay.perResource)
		}
		for i, op := range ops {
			c.Op("op%d %+v", i, op)
		}
		base1, trans1, _ := play(t, s, t0, first, ops, nil)
		with, trans2, nt := play(t, s, t0, first, ops, reloadAt)
		if len(base1) != len(with) {
			t.Fatalf("trace lengths differ")
		}
		for i := range base1 {
			if base1[i] != with[i] {
				t.Fatalf("request #%d on a: without reloads %+v, with reloads (unchanged rule re-submitted as a fresh copy) %+v", i, base1[i], with[i])
			}
		}
		var f1, f2 []model.Transition
		for _, x := range trans1 {
			if x.Rule == "r" {
				f1 = append(f1, x)
			}
		}
		for _, x := range trans2 {
			if x.Rule == "r" {
				f2 = append(f2, x)
			}
		}
		if fmt.Sprint(f1) != fmt.Sprint(f2) {
			t.Fatalf("listener log of the unchanged breaker: without reloads %v, with reloads %v", f1, f2)
		}
		c.ClassIf(nt, "reload-with-non-initial-state")
		c.ClassIf(stolen, "stat-compatible-rule-inserted-before-r")
		c.Class([]string{"flow", "breaker", "hotspot"}[s.module])
		if nt {
			c.NonTrivial()
		}
	})
}

// TestModifiedRuleKeepsStatistics: r' = r with a non-statistic field changed keeps the accumulated statistics.
func TestModifiedRuleKeepsStatistics(t *testing.T) {
	hx.Check(t, hx.N{Quick: 7500, Thorough: 80000}, func(t *rapid.T, c *hx.Case) {
		t0 := hx.Epoch + uint64(rapid.IntRange(0, 999).Draw(t, "t0"))
		hx.Reset(t0)
		// the reload may also bring a NEW rule that can never block and is statistic-compatible with the modified one, listed
		// after it or before it; the modified rule must keep its statistics either way
		extra := rapid.SampledFrom([]string{"none", "none", "after", "before"}).Draw(t, "newCompatibleRule")
		if extra == "before" && hx.Known("P30") {
			// known finding P30: the loader hands the old statistics to the first statistic-compatible rule of the new list
			extra = "after"
			c.Excluded("P30")
		}
		c.ClassIf(extra != "none", "reload-also-adds-a-compatible-rule-"+extra)
		flowList := func(r2 *flow.Rule) []*flow.Rule {
			x := &flow.Rule{ID: "new", Resource: "a", Threshold: 1e9, StatIntervalInMs: r2.StatIntervalInMs}
			switch extra {
			case "after":
				return []*flow.Rule{r2, x}
			case "before":
				return []*flow.Rule{x, r2}
			}
			return []*flow.Rule{r2}
		}
		cbList := func(r2 *cb.Rule) []*cb.Rule {
			x := copyCb(r2)
			x.Id, x.MinRequestAmount = "new", 1e9
			switch extra {
			case "after":
				return []*cb.Rule{r2, x}
			case "before":
				return []*cb.Rule{x, r2}
			}
			return []*cb.Rule{r2}
		}
		hotList := func(r2 *hotspot.Rule) []*hotspot.Rule {
			x := copyHot(r2)
			x.ID, x.Threshold = "new", 1e9
			if x.MetricType == hotspot.QPS && x.ControlBehavior == hotspot.Throttling {
				x.Threshold = 1e6 // spacing 0 ms: never waits, never blocks
			}
			switch extra {
			case "after":
				return []*hotspot.Rule{r2, x}
			case "before":
				return []*hotspot.Rule{x, r2}
			}
			return []*hotspot.Rule{r2}
		}
		switch rapid.IntRange(0, 4).Draw(t, "module") {
		case 0: // flow reject: window counts kept
			T := rapid.IntRange(2, 6).Draw(t, "T")
			I := uint32(rapid.SampledFrom([]int{0, 2000, 3000, 700}).Draw(t, "I"))
			r := &flow.Rule{Resource: "a", Threshold: float64(T), StatIntervalInMs: I}
			flow.LoadRules([]*flow.Rule{r})
			k := rapid.IntRange(1, T).Draw(t, "k")
			for i := 0; i < k; i++ {
				if e, b := sentinel.Entry("a"); b != nil {
					t.Fatalf("unexpected block while filling")
				} else {
					e.Exit()
				}
			}
			T2 := rapid.IntRange(1, 8).Draw(t, "T2")
			if T2 == T {
				T2++
			}
			r2 := &flow.Rule{Resource: "a", Threshold: float64(T2), StatIntervalInMs: I}
			if rapid.Bool().Draw(t, "perRes") {
				flow.LoadRulesOfResource("a", flowList(r2))
			} else {
				flow.LoadRules(flowList(r2))
			}
			_, blk := sentinel.Entry("a")
			want := k+1 > T2
			c.Op("flow T=%d I=%d: %d admitted, threshold changed to %d -> next blocked=%v (kept window requires %v)", T, I, k, T2, blk != nil, want)
			if (blk != nil) != want {
				t.Fatalf("flow rule T=%d I=%d with %d tokens in its window, threshold modified to %d (same statistic parameters): next request blocked=%v, with the statistics kept it must be %v", T, I, k, T2, blk != nil, want)
			}
			c.Class("flow")
		case 1: // breaker: counters kept, state restarts closed
			thr := rapid.IntRange(2, 4).Draw(t, "thr")
			r := &cb.Rule{Id: "r", Resource: "a", Strategy: cb.ErrorCount, RetryTimeoutMs: 100, MinRequestAmount: 1, StatIntervalMs: 5000, Threshold: float64(thr)}
			cb.LoadRules([]*cb.Rule{r})
			k := rapid.IntRange(1, thr).Draw(t, "k") // k == thr: the breaker has tripped (open) when the rule is modified
			for i := 0; i < k; i++ {
				e, _ := sentinel.Entry("a")
				e.Exit(base.WithError(errors.New("x")))
			}
			c.ClassIf(k == thr, "modified-while-open")
			thr2 := rapid.IntRange(1, 6).Draw(t, "thr2")
			if thr2 == thr {
				thr2++
			}
			r2 := copyCb(r)
			r2.Threshold = float64(thr2)
			r2.RetryTimeoutMs = 200
			if rapid.Bool().Draw(t, "perRes") {
				cb.LoadRulesOfResource("a", cbList(r2))
			} else {
				cb.LoadRules(cbList(r2))
			}
			e, blk := sentinel.Entry("a")
			if blk != nil {
				t.Fatalf("rebuilt breaker must start closed")
			}
			e.Exit(base.WithError(errors.New("x")))
			_, blk2 := sentinel.Entry("a")
			want := k+1 >= thr2
			c.Op("breaker count thr=%d: %d errors, threshold changed to %d, one more error -> open=%v (kept counters require %v)", thr, k, thr2, blk2 != nil, want)
			if (blk2 != nil) != want {
				t.Fatalf("breaker with %d errors in its window, threshold modified %d -> %d (same statistic parameters), one more error: open=%v, with the statistics kept it must be %v", k, thr, thr2, blk2 != nil, want)
			}
			c.Class("breaker")
		case 2: // hotspot QPS reject: per-value tokens kept
			T := int64(rapid.IntRange(1, 4).Draw(t, "T"))
			r := &hotspot.Rule{Resource: "a", MetricType: hotspot.QPS, ControlBehavior: hotspot.Reject, ParamIndex: 0, Threshold: T, DurationInSec: 10, SpecificItems: map[interface{}]int64{}}
			hotspot.LoadRules([]*hotspot.Rule{copyHot(r)})
			for i := int64(0); i < T; i++ {
				if e, b := sentinel.Entry("a", sentinel.WithArgs("v")); b != nil {
					t.Fatalf("unexpected block while draining")
				} else {
					e.Exit()
				}
			}
			r2 := copyHot(r)
			r2.Threshold = T + int64(rapid.IntRange(1, 5).Draw(t, "more"))
			if rapid.Bool().Draw(t, "perRes") {
				hotspot.LoadRulesOfResource("a", hotList(r2))
			} else {
				hotspot.LoadRules(hotList(r2))
			}
			_, blk := sentinel.Entry("a", sentinel.WithArgs("v"))
			c.Op("hotspot T=%d drained for value v, threshold raised to %d -> next blocked=%v", T, r2.Threshold, blk != nil)
			if blk == nil {
				t.Fatalf("hotspot rule T=%d with value v drained (0 tokens left, refill in 10 s), threshold raised to %d with the same statistic parameters: the next request was admitted, so the per-value counters were not kept", T, r2.Threshold)
			}
			c.Class("hotspot")
		case 3: // hotspot concurrency (either control behaviour): per-value in-flight counters kept
			T := int64(rapid.IntRange(1, 4).Draw(t, "T"))
			r := &hotspot.Rule{Resource: "a", MetricType: hotspot.Concurrency, ParamIndex: 0, Threshold: T, SpecificItems: map[interface{}]int64{}}
			if rapid.Bool().Draw(t, "throttling") {
				r.ControlBehavior = hotspot.Throttling
			}
			hotspot.LoadRules([]*hotspot.Rule{copyHot(r)})
			k := rapid.IntRange(1, int(T)).Draw(t, "k")
			var held []*base.SentinelEntry
			for i := 0; i < k; i++ {
				e, b := sentinel.Entry("a", sentinel.WithArgs("v"))
				if b != nil {
					t.Fatalf("unexpected block while filling")
				}
				held = append(held, e)
			}
			T2 := int64(rapid.IntRange(1, 6).Draw(t, "T2"))
			if T2 == T {
				T2++
			}
			r2 := copyHot(r)
			r2.Threshold = T2
			if rapid.Bool().Draw(t, "perRes") {
				hotspot.LoadRulesOfResource("a", hotList(r2))
			} else {
				hotspot.LoadRules(hotList(r2))
			}
			e, blk := sentinel.Entry("a", sentinel.WithArgs("v"))
			want := int64(k)+1 > T2
			c.Op("hotspot concurrency (behaviour %v) T=%d: %d in flight for value v, threshold changed to %d -> next blocked=%v (kept counters require %v)", r.ControlBehavior, T, k, T2, blk != nil, want)
			if e != nil {
				held = append(held, e)
			}
			if (blk != nil) != want {
				for _, h := range held {
					h.Exit()
				}
				t.Fatalf("hotspot concurrency rule (behaviour %v) T=%d with %d requests of value v in flight, threshold modified to %d (same statistic parameters): next request blocked=%v, with the counters kept it must be %v", r.ControlBehavior, T, k, T2, blk != nil, want)
			}
			for _, h := range held {
				h.Exit()
			}
			held = nil
			for i := int64(0); i <= T2; i++ { // everything has exited: exactly T2 fit again
				e, blk := sentinel.Entry("a", sentinel.WithArgs("v"))
				if e != nil {
					held = append(held, e)
				}
				if (blk != nil) != (i == T2) {
					for _, h := range held {
						h.Exit()
					}
					t.Fatalf("hotspot concurrency rule after the modification and after all requests exited: request %d of value v blocked=%v, threshold %d (the exits of requests admitted before the reload were lost or counted twice)", i+1, blk != nil, T2)
				}
			}
			for _, h := range held {
				h.Exit()
			}
			c.Class("hotspot-concurrency")
		case 4: // hotspot QPS throttling: the value's last pass time is kept
			T := int64(rapid.IntRange(1, 4).Draw(t, "T"))
			r := &hotspot.Rule{Resource: "a", MetricType: hotspot.QPS, ControlBehavior: hotspot.Throttling, ParamIndex: 0, Threshold: T, DurationInSec: 10, MaxQueueingTimeMs: 0, SpecificItems: map[interface{}]int64{}}
			hotspot.LoadRules([]*hotspot.Rule{copyHot(r)})
			if e, b := sentinel.Entry("a", sentinel.WithArgs("v")); b != nil {
				t.Fatalf("first request of a value was rejected")
			} else {
				e.Exit()
			}
			r2 := copyHot(r)
			r2.Threshold = T + int64(rapid.IntRange(1, 5).Draw(t, "more"))
			if rapid.Bool().Draw(t, "perRes") {
				hotspot.LoadRulesOfResource("a", hotList(r2))
			} else {
				hotspot.LoadRules(hotList(r2))
			}
			hx.C.AddMs(uint64(rapid.IntRange(0, 500).Draw(t, "dt"))) // far less than 10 s / threshold (>= 1.1 s)
			_, blk := sentinel.Entry("a", sentinel.WithArgs("v"))
			c.Op("hotspot throttling T=%d: value v passed, threshold raised to %d -> next (no queueing allowed) blocked=%v", T, r2.Threshold, blk != nil)
			if blk == nil {
				t.Fatalf("hotspot throttling rule T=%d per 10 s, value v just passed, threshold raised to %d with the same statistic parameters: the next request was admitted at once, so the value's pacing state was not kept", T, r2.Threshold)
			}
			c.Class("hotspot-throttling")
		}
		c.NonTrivial()
	})
}

// ---- plain witnesses / regressions --------------------------------------------------------------------

// P18: [h] reloaded as [h', h] with h' stat-compatible and placed before the unchanged h.
func TestP_RegressP18(t *testing.T) {
	hx.Plain(t, func(c *hx.Case) {
		hx.Reset(hx.Epoch)
		h := &hotspot.Rule{ID: "h", Resource: "a", MetricType: hotspot.QPS, ControlBehavior: hotspot.Reject, ParamIndex: 0, Threshold: 2, DurationInSec: 10, SpecificItems: map[interface{}]int64{}}
		hotspot.LoadRules([]*hotspot.Rule{copyHot(h)})
		for i := 0; i < 2; i++ {
			e, _ := sentinel.Entry("a", sentinel.WithArgs("v"))
			e.Exit()
		}
		h2 := copyHot(h)
		h2.ID, h2.Threshold = "h2", 1e9
		hotspot.LoadRules([]*hotspot.Rule{h2, copyHot(h)})
		_, blk := sentinel.Entry("a", sentinel.WithArgs("v"))
		c.Op("hotspot [h] -> [h', h] (h' stat-compatible, before h); h had 0 tokens left for v")
		hx.Witness(t, "C14", "P18", "hotspot list [h] reloaded as [h', h] with a statistic-compatible h' placed before the unchanged h: h loses its token state (third request admitted)", blk == nil)
		c.NonTrivial()
	})
}

// P12 seen through C14: identical reload of a warm-up rule with cold factor 0 / a hotspot rule with nil SpecificItems.
func TestP_RegressP12(t *testing.T) {
	hx.Plain(t, func(c *hx.Case) {
		hx.Reset(hx.Epoch)
		h := &hotspot.Rule{ID: "h", Resource: "a", MetricType: hotspot.QPS, ControlBehavior: hotspot.Reject, ParamIndex: 0, Threshold: 2, DurationInSec: 10}
		hotspot.LoadRules([]*hotspot.Rule{copyHot(h)})
		for i := 0; i < 2; i++ {
			e, _ := sentinel.Entry("a", sentinel.WithArgs("v"))
			e.Exit()
		}
		changed, _ := hotspot.LoadRules([]*hotspot.Rule{copyHot(h)})
		_, blk := sentinel.Entry("a", sentinel.WithArgs("v"))
		c.Op("hotspot rule with nil SpecificItems reloaded as an identical fresh copy: changed=%v, third request blocked=%v", changed, blk != nil)
		hx.Witness(t, "C14", "P12", "identical reload of a hotspot rule with nil SpecificItems (the loader mutated the stored rule) rebuilds the controller: token state lost / reload reports 'changed'", blk == nil || changed)
		c.NonTrivial()
	})
}

// P30 (known): a new statistic-compatible rule listed before the modified rule takes over its statistics.
func TestP_KnownP30(t *testing.T) {
	hx.Plain(t, func(c *hx.Case) {
		hx.Reset(hx.Epoch)
		flow.LoadRules([]*flow.Rule{{ID: "r", Resource: "a", Threshold: 2, StatIntervalInMs: 3000}})
		if e, b := sentinel.Entry("a"); b == nil {
			e.Exit()
		}
		// threshold 2 -> 1 (one token already in the 3 s window: the next request must be rejected), new inert rule first
		flow.LoadRules([]*flow.Rule{{ID: "new", Resource: "a", Threshold: 1e9, StatIntervalInMs: 3000}, {ID: "r", Resource: "a", Threshold: 1, StatIntervalInMs: 3000}})
		e, blk := sentinel.Entry("a")
		if e != nil {
			e.Exit()
		}
		c.Op("flow rule T=2 I=3000 with one token in its window; reload [new inert compatible rule, same rule with T=1]; next request blocked=%v", blk != nil)
		hx.Witness(t, "C14", "P30", "flow rule (T=2, 3 s window, one token used) modified to T=1 in a reload that lists a new statistic-compatible rule before it: the next request is admitted, the modified rule lost its window to the new rule (same in circuitbreaker and hotspot)", blk == nil)
		c.NonTrivial()
	})
}

// TestSiblingTables: two hotspot rules on one resource that are identical except for their specific-item tables (of the
// same size; one of them bans a value with threshold 0). Everything happens at one instant (durations of 10 s: nothing is
// refilled). After a reload that removes the banning rule, or lists the two in the other order, the remaining rules are
// unchanged and keep their counters: a value that had used up its specific quota stays exhausted; and the ban is in force
// exactly as long as the banning rule is listed: once it is gone the banned value gets the other rule's general quota.
func TestSiblingTables(t *testing.T) {
	hx.Check(t, hx.N{Quick: 2000, Thorough: 20000}, func(t *rapid.T, c *hx.Case) {
		hx.Reset(hx.Epoch + uint64(rapid.IntRange(0, 999).Draw(t, "t0")))
		T := int64(rapid.IntRange(2, 4).Draw(t, "T"))
		shared := int64(rapid.IntRange(1, 5).Draw(t, "sharedItem"))
		staffQ := int64(rapid.IntRange(1, int(T)).Draw(t, "staffQuota"))
		mk := func(id string, table map[interface{}]int64) *hotspot.Rule {
			return &hotspot.Rule{ID: id, Resource: "a", MetricType: hotspot.QPS, ControlBehavior: hotspot.Reject, ParamIndex: 0, Threshold: T, DurationInSec: 10, SpecificItems: table}
		}
		ban := func() *hotspot.Rule { return mk("ban", map[interface{}]int64{"banned": 0, "vip": shared}) }
		oth := func() *hotspot.Rule { return mk("oth", map[interface{}]int64{"staff": staffQ, "vip": shared}) }
		banFirst := rapid.Bool().Draw(t, "banningRuleFirst")
		first := []*hotspot.Rule{ban(), oth()}
		if !banFirst {
			first = []*hotspot.Rule{oth(), ban()}
		}
		if _, err := hotspot.LoadRules(first); err != nil || len(hotspot.GetRulesOfResource("a")) != 2 {
			t.Fatalf("load: %v", err)
		}
		ask := func(v string) bool {
			e, blk := sentinel.Entry("a", sentinel.WithArgs(v))
			if e != nil {
				e.Exit()
			}
			return blk == nil
		}
		// staff uses up its quota (the banning rule's general threshold T >= staffQ never binds first)
		got := int64(0)
		for i := int64(0); i < staffQ+1; i++ {
			if ask("staff") {
				got++
			}
		}
		if got != staffQ {
			t.Fatalf("before the reload: %d staff requests admitted, specific quota %d", got, staffQ)
		}
		if ask("banned") {
			t.Fatalf("before the reload: the banned value was admitted")
		}
		othSawBanned := int64(0)
		if !banFirst {
			othSawBanned = 1 // listed first, the other rule was consulted (and charged) before the ban blocked the request
		}
		kind := rapid.SampledFrom([]string{"ban removed", "swapped"}).Draw(t, "reload")
		var next []*hotspot.Rule
		switch kind {
		case "ban removed":
			next = []*hotspot.Rule{oth()}
		case "swapped":
			next = []*hotspot.Rule{first[1], first[0]}
			next = []*hotspot.Rule{copyHot(next[0]), copyHot(next[1])}
		}
		var err error
		if rapid.Bool().Draw(t, "perResource") {
			_, err = hotspot.LoadRulesOfResource("a", next)
		} else {
			_, err = hotspot.LoadRules(next)
		}
		if err != nil || len(hotspot.GetRulesOfResource("a")) != len(next) {
			t.Fatalf("reload: %v", err)
		}
		c.Op("T=%d staff quota=%d banning rule first=%v reload: %s", T, staffQ, banFirst, kind)
		if ask("staff") {
			t.Fatalf("reload (%s): the unchanged rule with the staff quota %d lost its counters: staff, exhausted before the reload, is admitted again at the same instant", kind, staffQ)
		}
		switch kind {
		case "swapped":
			if ask("banned") {
				t.Fatalf("reload (swapped): the banning rule is still listed but the banned value was admitted")
			}
		case "ban removed":
			want := T - othSawBanned
			got := int64(0)
			for i := int64(0); i < T+1; i++ {
				if ask("banned") {
					got++
				}
			}
			if got != want {
				t.Fatalf("reload (ban removed): the rule with the ban is gone; of %d requests for the formerly banned value %d were admitted, the remaining rule's general quota leaves %d", T+1, got, want)
			}
		}
		c.NonTrivial()
		c.Class("sibling-tables: " + kind)
	})
}

// TestSiblingIntervals: under a process-wide configuration whose default metric spans 2000 ms, two pacing rules of one
// resource differ only in their statistic interval: 0 (a pacing rule with interval 0 is paced over one second) and 2000
// (paced over two). After a reload that removes the first or swaps the two, the remaining rules are unchanged and keep
// their pacing state and their own spacing: a second request at the same instant is asked to wait exactly the spacings of
// the rules still listed.
func TestSiblingIntervals(t *testing.T) {
	hx.Check(t, hx.N{Quick: 1500, Thorough: 15000}, func(t *rapid.T, c *hx.Case) {
		sc := rapid.SampledFrom([]hx.StatCfg{{2, 2000, 20, 10000}, {4, 2000, 20, 10000}, {2, 1000, 20, 10000}, {5, 5000, 10, 10000}}).Draw(t, "statConfig")
		hx.ResetCfg(hx.Epoch+uint64(rapid.IntRange(0, 999).Draw(t, "t0")), sc, nil)
		T := float64(rapid.SampledFrom([]int{5, 10, 20}).Draw(t, "T"))
		mk := func(id string, iv uint32) *flow.Rule {
			return &flow.Rule{ID: id, Resource: "a", ControlBehavior: flow.Throttling, Threshold: T, StatIntervalInMs: iv, MaxQueueingTimeMs: 3600000}
		}
		need := func(iv uint32) int64 { // spacing in ns: one token over the rule's interval (0 = one second)
			if iv == 0 {
				iv = 1000
			}
			return int64(float64(iv) * 1e6 / T)
		}
		other := sc.MI
		if other == 1000 {
			other = 2000
		}
		first := []*flow.Rule{mk("zero", 0), mk("other", other)}
		if rapid.Bool().Draw(t, "otherFirst") {
			first[0], first[1] = first[1], first[0]
		}
		if _, err := flow.LoadRules(first); err != nil || len(flow.GetRulesOfResource("a")) != 2 {
			t.Fatalf("load: %v", err)
		}
		ask := func() (bool, int64) {
			hx.C.TakeSlept()
			e, blk := sentinel.Entry("a")
			var w int64
			for _, d := range hx.C.TakeSlept() {
				w += int64(d)
			}
			if e != nil {
				e.Exit()
			}
			return blk == nil, w
		}
		if ok, w := ask(); !ok || w != 0 {
			t.Fatalf("first request on an idle resource: admitted=%v wait=%d", ok, w)
		}
		kind := rapid.SampledFrom([]string{"zero removed", "other removed", "swapped"}).Draw(t, "reload")
		var next []*flow.Rule
		var want int64
		switch kind {
		case "zero removed":
			next, want = []*flow.Rule{mk("other", other)}, need(other)
		case "other removed":
			next, want = []*flow.Rule{mk("zero", 0)}, need(0)
		default:
			next, want = []*flow.Rule{copyFlow(first[1]), copyFlow(first[0])}, need(0)+need(other)
		}
		var err error
		if rapid.Bool().Draw(t, "perResource") {
			_, err = flow.LoadRulesOfResource("a", next)
		} else {
			_, err = flow.LoadRules(next)
		}
		if err != nil || len(flow.GetRulesOfResource("a")) != len(next) {
			t.Fatalf("reload: %v", err)
		}
		ok, w := ask()
		c.Op("config %+v T=%v other interval=%d reload: %s -> admitted=%v wait=%dns (want %dns)", sc, T, other, kind, ok, w, want)
		if !ok || w != want {
			t.Fatalf("config %+v: pacing rules with statistic intervals 0 and %d (threshold %v); after the reload (%s) a second request at the same instant: admitted=%v, asked to wait %dns; the rules still listed are unchanged and charge exactly %dns", sc, other, T, kind, ok, w, want)
		}
		c.NonTrivial()
		c.Class("sibling-intervals: " + kind)
	})
}

// TestReorderedBreakers: two circuit-breaking rules of one resource, both tripped; the rules are reloaded unchanged in the
// other order (whole-set or per-resource loader). Both breakers keep their state, and the latest order is the one in which
// they are consulted: a request right away is rejected by the rule listed first now; once only the first-listed rule's
// retry timeout has elapsed, a request probes that breaker (Open->HalfOpen), is rejected by the other one, and the probe
// is rolled back (HalfOpen->Open) - three facts the listeners and the block error report.
func TestReorderedBreakers(t *testing.T) {
	hx.Check(t, hx.N{Quick: 1500, Thorough: 15000}, func(t *rapid.T, c *hx.Case) {
		hx.Reset(hx.Epoch + uint64(rapid.IntRange(0, 999).Draw(t, "t0")))
		l := &lis{}
		cb.RegisterStateChangeListeners(l)
		st := cb.Strategy(rapid.SampledFrom([]int{int(cb.ErrorCount), int(cb.ErrorRatio)}).Draw(t, "strategy"))
		thr := 1.0
		if st == cb.ErrorRatio {
			thr = 0.5
		}
		mk := func(id string, retry uint32) *cb.Rule {
			return &cb.Rule{Id: id, Resource: "a", Strategy: st, RetryTimeoutMs: retry, MinRequestAmount: 1, StatIntervalMs: 10000, Threshold: thr}
		}
		short := uint32(rapid.SampledFrom([]int{50, 100}).Draw(t, "shortRetry"))
		slow, quick := mk("slow", 5000), mk("quick", short)
		if _, err := cb.LoadRules([]*cb.Rule{copyCb(slow), copyCb(quick)}); err != nil || len(cb.GetRulesOfResource("a")) != 2 {
			t.Fatalf("load: %v", err)
		}
		e, _ := sentinel.Entry("a")
		if e == nil {
			t.Fatalf("first request blocked")
		}
		e.Exit(base.WithError(errors.New("biz"))) // trips both
		if _, blk := sentinel.Entry("a"); blk == nil || ruleKey(blk.TriggeredRule()) != ruleKey(slow) {
			t.Fatalf("before the reload: want a rejection by the rule listed first (slow), got %v", blk)
		}
		var err error
		perRes := rapid.Bool().Draw(t, "perResource")
		if perRes {
			_, err = cb.LoadRulesOfResource("a", []*cb.Rule{copyCb(quick), copyCb(slow)})
		} else {
			_, err = cb.LoadRules([]*cb.Rule{copyCb(quick), copyCb(slow)})
		}
		if err != nil {
			t.Fatalf("reload: %v", err)
		}
		if rs := cb.GetRulesOfResource("a"); len(rs) != 2 || rs[0].Id != "quick" {
			t.Fatalf("after the reload the getter reports %v, want quick then slow", rs)
		}
		_, blk := sentinel.Entry("a")
		if blk == nil || ruleKey(blk.TriggeredRule()) != ruleKey(quick) {
			t.Fatalf("right after the reload in the other order (per-resource=%v): both breakers are still open; want a rejection by the rule listed first now (quick), got %v", perRes, blk)
		}
		hx.C.AddMs(uint64(short) + uint64(rapid.IntRange(0, 50).Draw(t, "past")))
		before := len(l.log)
		_, blk = sentinel.Entry("a")
		if blk == nil || ruleKey(blk.TriggeredRule()) != ruleKey(slow) {
			t.Fatalf("after the first-listed rule's retry timeout: want a rejection by the other rule (slow), got %v", blk)
		}
		got := fmt.Sprint(l.log[before:])
		want := fmt.Sprint([]model.Transition{{From: model.Open, To: model.HalfOpen, Rule: "quick"}, {From: model.HalfOpen, To: model.Open, Rule: "quick"}})
		c.Op("strategy=%v short retry=%d per-resource=%v: events %s", st, short, perRes, got)
		if got != want {
			t.Fatalf("after the reload in the other order (per-resource=%v) and the first-listed rule's retry timeout, the request must probe that breaker and roll the probe back when the other one rejects: listeners saw %s, want %s", perRes, got, want)
		}
		c.NonTrivial()
	})
}
