// C06: hot-parameter concurrency is capped per value and its counters conserved.
package c06

import (
	"errors"
	"fmt"
	"os"
	"reflect"
	"runtime"
	"runtime/debug"
	"sync"
	"testing"

	sentinel "github.com/alibaba/sentinel-golang/api"
	"github.com/alibaba/sentinel-golang/core/base"
	cb "github.com/alibaba/sentinel-golang/core/circuitbreaker"
	"github.com/alibaba/sentinel-golang/core/hotspot"
	"pgregory.net/rapid"

	"verif/harness/hx"
)

func TestMain(m *testing.M) {
	if os.Getenv("C06_PROCS") == "" {
		runtime.GOMAXPROCS(1)
	}
	hx.Main(m, "C06")
}

type S struct{ A int }

// SA: a comparable struct with an array field (an address with its port, say)
type SA struct {
	IP   [4]byte
	Port int
}

var ptrTarget = 7

var vals = []interface{}{1, 2, "x", "y", true, 3.5, S{1}, int64(1), uint8(2), 2.000001, 2.000002, false, "", "1", S{2}, float32(1.5),
	[4]byte{10, 0, 0, 1}, [4]byte{10, 0, 0, 2}, [2]string{"a", "b"}, SA{[4]byte{10, 0, 0, 1}, 80}, &ptrTarget, complex(1, 2), 'x'}

type mrule struct {
	r    *hotspot.Rule
	live map[interface{}]int64
}

func (m *mrule) threshold(v interface{}) int64 {
	if s, ok := m.r.SpecificItems[v]; ok {
		return s
	}
	return m.r.Threshold
}

// selected argument of a request for a rule, from the model's point of view.
func (m *mrule) extract(args []interface{}, att map[interface{}]interface{}) interface{} {
	if m.r.ParamKey != "" {
		if v, ok := att[m.r.ParamKey]; ok {
			return v
		}
		return nil // the generator never combines a key rule with positional fallback
	}
	idx := m.r.ParamIndex
	if idx < 0 {
		idx = len(args) + idx
	}
	if idx < 0 || idx >= len(args) {
		return nil
	}
	return args[idx]
}

func cloneRule(r *hotspot.Rule) *hotspot.Rule {
	c := *r
	c.SpecificItems = map[interface{}]int64{}
	for k, v := range r.SpecificItems {
		c.SpecificItems[k] = v
	}
	return &c
}

func drawRules(t *rapid.T, c *hx.Case, minT int) []*mrule {
	var ms []*mrule
	for _, res := range []string{"a", "b"} {
		nr := rapid.IntRange(0, 2).Draw(t, "nrules")
		keyed := rapid.IntRange(0, 3).Draw(t, "keyed") == 0
		for i := 0; i < nr; i++ {
			r := &hotspot.Rule{ID: fmt.Sprintf("%s%d", res, i), Resource: res, MetricType: hotspot.Concurrency,
				Threshold: int64(rapid.IntRange(minT, 3).Draw(t, "T")), SpecificItems: map[interface{}]int64{}}
			if rapid.IntRange(0, 2).Draw(t, "behaviour") == 0 {
				r.ControlBehavior = hotspot.Throttling // a concurrency rule counts in-flight entries whatever its control behaviour says
			}
			if rapid.IntRange(0, 3).Draw(t, "capacity") == 0 {
				r.ParamsMaxCapacity = int64(rapid.SampledFrom([]int{50, 4000, 100000}).Draw(t, "cap")) // never fewer than the live values
			}
			if keyed {
				r.ParamKey = "k"
			} else {
				r.ParamIndex = rapid.SampledFrom([]int{0, 1, -1, -2}).Draw(t, "idx")
			}
			ns := rapid.IntRange(0, 2).Draw(t, "nspec")
			for j := 0; j < ns; j++ {
				r.SpecificItems[vals[rapid.IntRange(0, len(vals)-1).Draw(t, "sv")]] = int64(rapid.IntRange(minT, 4).Draw(t, "st"))
			}
			ms = append(ms, &mrule{r, map[interface{}]int64{}})
			c.Op("rule %s res=%s idx=%d key=%q T=%d specific=%v", r.ID, res, r.ParamIndex, r.ParamKey, r.Threshold, r.SpecificItems)
		}
	}
	return ms
}

// pacerFirst: a QPS pacing rule on argument 0 of resource a is listed before the concurrency rules; same-value requests
// arriving together are asked to wait a little (the caller really sleeps) and must still be counted against the caps.
var pacerFirst bool

func load(t *rapid.T, ms []*mrule) {
	var cp []*hotspot.Rule
	if pacerFirst {
		cp = append(cp, &hotspot.Rule{ID: "pacer", Resource: "a", MetricType: hotspot.QPS, ControlBehavior: hotspot.Throttling, ParamIndex: 0, Threshold: 100, DurationInSec: 1, MaxQueueingTimeMs: 3600000, SpecificItems: map[interface{}]int64{}})
	}
	for _, m := range ms {
		cp = append(cp, cloneRule(m.r))
	}
	if _, err := hotspot.LoadRules(cp); err != nil {
		t.Fatalf("LoadRules: %v", err)
	}
	for _, res := range []string{"a", "b"} {
		n := 0
		for _, m := range ms {
			if m.r.Resource == res {
				n++
			}
		}
		if pacerFirst && res == "a" {
			n++
		}
		if got := len(hotspot.GetRulesOfResource(res)); got != n {
			t.Fatalf("loaded %d valid rules for %s, module reports %d", n, res, got)
		}
	}
}

type lv struct {
	id   int
	e    *base.SentinelEntry
	res  string
	args []interface{}
	att  map[interface{}]interface{}
}

func keyedRes(ms []*mrule, res string) bool {
	for _, m := range ms {
		if m.r.Resource == res && m.r.ParamKey != "" {
			return true
		}
	}
	return false
}

func TestPerValueCap(t *testing.T) {
	hx.Check(t, hx.N{Quick: 25000, Thorough: 240000}, func(t *rapid.T, c *hx.Case) {
		debug.SetGCPercent(-1)
		runtime.GC()
		runtime.GC()
		defer debug.SetGCPercent(100)
		hx.Reset(hx.Epoch)
		minT := 0
		if hx.Known("P6") {
			minT = 1
			c.Excluded("P6")
		}
		ms := drawRules(t, c, minT)
		pacerFirst = rapid.IntRange(0, 3).Draw(t, "pacingRuleFirst") == 0
		hx.C.Advance = pacerFirst
		defer func() { pacerFirst, hx.C.Advance = false, false }()
		c.ClassIf(pacerFirst, "pacing-rule-listed-before-the-concurrency-rules")
		load(t, ms)
		var lives []*lv
		defer func() {
			for _, l := range lives {
				l.e.Exit()
			}
		}()
		nextID := 0
		maxDistinctLive, diffArity := 0, false
		splitArgs := rapid.Bool().Draw(t, "argumentsInSeveralOptions")
		sharedAtt, viaSharedMap := map[interface{}]interface{}{}, rapid.Bool().Draw(t, "callerReusesOneAttachmentMap")
		enter := func(res string, args []interface{}, att map[interface{}]interface{}) {
			expBlock := ""
			var expVal int64
			for _, m := range ms {
				if m.r.Resource != res {
					continue
				}
				v := m.extract(args, att)
				if v == nil {
					continue
				}
				if !(m.live[v] < m.threshold(v)) {
					expBlock = m.r.ID
					expVal = m.live[v] + 1
					break
				}
			}
			var opts []sentinel.EntryOption
			if len(args) > 1 && splitArgs { // the positional arguments arrive in several WithArgs options (they accumulate)
				opts = append(opts, sentinel.WithArgs(args[0]), sentinel.WithArgs(args[1:]...))
			} else if len(args) > 0 {
				opts = append(opts, sentinel.WithArgs(args...))
			}
			if len(att) > 0 && viaSharedMap {
				// the caller keeps ONE map, refills it for every call and hands it over with WithAttachments
				for k := range sharedAtt {
					delete(sharedAtt, k)
				}
				for k, v := range att {
					sharedAtt[k] = v
				}
				opts = append(opts, sentinel.WithAttachments(sharedAtt))
			} else {
				for k, v := range att {
					opts = append(opts, sentinel.WithAttachment(k, v))
				}
			}
			e, blk := sentinel.Entry(res, opts...)
			c.Op("Entry(%s args=%v att=%v) -> blocked=%v", res, args, att, blk != nil)
			if e != nil {
				lives = append(lives, &lv{nextID, e, res, args, att})
				nextID++
			}
			if (expBlock != "") != (blk != nil) {
				t.Fatalf("Entry(%s, args=%v, att=%v): model expects blocked-by=%q (in-flight per value vs threshold), library returned block=%v", res, args, att, expBlock, blk)
			}
			if blk != nil {
				if blk.BlockType() != base.BlockTypeHotSpotParamFlow {
					t.Fatalf("block type %v", blk.BlockType())
				}
				if r, ok := blk.TriggeredRule().(*hotspot.Rule); !ok || r.ID != expBlock {
					t.Fatalf("blocked by rule %v, the first exhausted rule in the model is %s", blk.TriggeredRule(), expBlock)
				}
				if v, ok := blk.TriggeredValue().(int64); !ok || v != expVal {
					t.Fatalf("triggered value %v, model in-flight+1 = %d", blk.TriggeredValue(), expVal)
				}
			} else {
				for _, m := range ms {
					if m.r.Resource == res {
						if v := m.extract(args, att); v != nil {
							m.live[v]++
						}
					}
				}
			}
		}
		exit := func(k int, withErr bool) {
			l := lives[k]
			lives = append(lives[:k], lives[k+1:]...)
			if withErr {
				l.e.Exit(base.WithError(errors.New("biz")))
			} else {
				l.e.Exit()
			}
			c.Op("Exit(#%d err=%v)", l.id, withErr)
			for _, m := range ms {
				if m.r.Resource == l.res {
					if v := m.extract(l.args, l.att); v != nil {
						m.live[v]--
					}
				}
			}
		}
		n := rapid.IntRange(1, 40).Draw(t, "n")
		added, retuned := 0, 0
		for i := 0; i < n; i++ {
			if len(lives) == 0 && len(ms) > 0 && added < 2 && rapid.IntRange(0, 7).Draw(t, "addRule") == 0 {
				// nothing is in flight: a further rule is added for a resource that has one (same selector kind and capacity, so the
				// loader may hand statistics around), every present rule is listed unchanged; the new rule counts from zero
				old := ms[rapid.IntRange(0, len(ms)-1).Draw(t, "like")]
				nr := cloneRule(old.r)
				added++
				nr.ID = fmt.Sprintf("%s-added%d", old.r.Resource, added)
				nr.Threshold = int64(rapid.IntRange(minT, 3).Draw(t, "T"))
				if old.r.ParamKey == "" && rapid.Bool().Draw(t, "otherPosition") {
					nr.ParamIndex = rapid.SampledFrom([]int{0, 1, -1, -2}).Draw(t, "idx")
				}
				ms = append(ms, &mrule{nr, map[interface{}]int64{}})
				load(t, ms)
				c.Op("rule %s added (res=%s idx=%d key=%q T=%d) with nothing in flight", nr.ID, nr.Resource, nr.ParamIndex, nr.ParamKey, nr.Threshold)
				c.Class("rule-added-by-a-reload-at-quiescence")
			}
			if len(lives) > 0 && len(ms) > 0 && retuned < 2 && rapid.IntRange(0, 9).Draw(t, "retuneRule") == 0 {
				// entries are in flight: one rule is reloaded with another general threshold, everything else unchanged. The changed
				// rule takes over the per-value counters of the old one: entries that were in flight still count, and still give
				// their unit back when they exit.
				// (only a rule that is alone on its resource: with statistic-compatible siblings the loader hands the first compatible
				// old statistic to the first changed rule, whichever rule it belonged to - C14, known finding P30)
				m := ms[rapid.IntRange(0, len(ms)-1).Draw(t, "which")]
				alone := true
				for _, o := range ms {
					if o != m && o.r.Resource == m.r.Resource {
						alone = false
					}
				}
				if alone {
					retuned++
					m.r.Threshold = int64(rapid.IntRange(minT, 4).Draw(t, "T2"))
					load(t, ms)
					c.Op("rule %s reloaded with threshold %d while %d entries are in flight", m.r.ID, m.r.Threshold, len(lives))
					c.Class("threshold-changed-by-a-reload-with-entries-in-flight")
				}
			}
			if rapid.IntRange(0, 4).Draw(t, "op") < 3 {
				res := rapid.SampledFrom([]string{"a", "b"}).Draw(t, "res")
				var args []interface{}
				var att map[interface{}]interface{}
				if keyedRes(ms, res) {
					if rapid.IntRange(0, 4).Draw(t, "hasAtt") > 0 {
						att = map[interface{}]interface{}{"k": vals[rapid.IntRange(0, len(vals)-1).Draw(t, "v")]}
						if rapid.Bool().Draw(t, "extraAtt") {
							att["other"] = 1
						}
					}
				} else {
					na := rapid.IntRange(0, 3).Draw(t, "nargs")
					for k := 0; k < na; k++ {
						args = append(args, vals[rapid.IntRange(0, len(vals)-1).Draw(t, "v")])
					}
				}
				enter(res, args, att)
			} else if len(lives) > 0 {
				exit(rapid.IntRange(0, len(lives)-1).Draw(t, "k"), rapid.IntRange(0, 3).Draw(t, "err") == 0)
			}
			distinct := map[string]bool{}
			arity := map[int]bool{}
			for _, l := range lives {
				got := l.e.Context().Input.Args
				if len(got) != len(l.args) || (len(got) > 0 && !reflect.DeepEqual(got, l.args)) {
					t.Fatalf("live entry #%d: Context().Input.Args=%v, it was created with %v", l.id, got, l.args)
				}
				distinct[fmt.Sprintf("%T%v%v", l.args, l.args, l.att)] = true
				arity[len(l.args)] = true
			}
			if len(distinct) > maxDistinctLive {
				maxDistinctLive = len(distinct)
			}
			if len(arity) > 1 {
				diffArity = true
			}
		}
		// drain: after everything exited every value admits exactly its threshold again
		for len(lives) > 0 {
			exit(len(lives)-1, false)
		}
		for _, m := range ms {
			for v, n := range m.live {
				if n != 0 {
					t.Fatalf("model bug: rule %s value %v live %d after drain", m.r.ID, v, n)
				}
			}
		}
		probeRes := rapid.SampledFrom([]string{"a", "b"}).Draw(t, "probeRes")
		pv := vals[rapid.IntRange(0, len(vals)-1).Draw(t, "probeV")]
		for k := 0; k < 6; k++ {
			if keyedRes(ms, probeRes) {
				enter(probeRes, nil, map[interface{}]interface{}{"k": pv})
			} else {
				enter(probeRes, []interface{}{pv, pv}, nil)
			}
		}
		c.ClassIf(maxDistinctLive >= 2, ">=2-values-live")
		c.ClassIf(diffArity, "different-arity-live")
		if maxDistinctLive >= 2 || diffArity {
			c.NonTrivial()
		}
	})
}

// TestConcurrentQuiescence: many goroutines hammer a few values; when everything has exited every
// value must admit exactly its threshold again (counters conserved), whatever happened in between.
func TestConcurrentQuiescence(t *testing.T) {
	hx.Check(t, hx.N{Quick: 750, Thorough: 12000}, func(t *rapid.T, c *hx.Case) {
		old := runtime.GOMAXPROCS(8)
		defer runtime.GOMAXPROCS(old)
		hx.Reset(hx.Epoch)
		T := int64(rapid.IntRange(1, 4).Draw(t, "T"))
		spec := int64(rapid.IntRange(1, 3).Draw(t, "spec"))
		idx := rapid.SampledFrom([]int{0, -1}).Draw(t, "idx")
		r := &hotspot.Rule{Resource: "q", MetricType: hotspot.Concurrency, ParamIndex: idx, Threshold: T, SpecificItems: map[interface{}]int64{"hot": spec}}
		if _, err := hotspot.LoadRules([]*hotspot.Rule{cloneRule(r)}); err != nil {
			t.Fatal(err)
		}
		G := rapid.IntRange(2, 8).Draw(t, "G")
		iters := rapid.IntRange(5, 60).Draw(t, "iters")
		hold := rapid.IntRange(0, 3).Draw(t, "hold")
		values := []interface{}{"hot", "v1", 7, true}
		c.Op("T=%d specific(hot)=%d idx=%d G=%d iters=%d hold=%d", T, spec, idx, G, iters, hold)
		var wg sync.WaitGroup
		var admitted, blocked int64
		var mu sync.Mutex
		for g := 0; g < G; g++ {
			g := g
			wg.Add(1)
			go func() {
				defer wg.Done()
				var held []*base.SentinelEntry
				a, b := int64(0), int64(0)
				for i := 0; i < iters; i++ {
					v := values[(g+i)%len(values)]
					e, blk := sentinel.Entry("q", sentinel.WithArgs(v))
					if blk != nil {
						b++
					} else {
						a++
						held = append(held, e)
					}
					if len(held) > hold {
						if i%3 == 0 {
							held[0].Exit(base.WithError(errors.New("x")))
						} else {
							held[0].Exit()
						}
						held = held[1:]
					}
					if i%2 == 0 {
						runtime.Gosched()
					}
				}
				for _, e := range held {
					e.Exit()
					e.Exit() // idempotent
				}
				mu.Lock()
				admitted += a
				blocked += b
				mu.Unlock()
			}()
		}
		wg.Wait()
		for _, v := range values {
			want := T
			if v == "hot" {
				want = spec
			}
			var es []*base.SentinelEntry
			got := int64(0)
			for k := int64(0); k < want+3; k++ {
				e, blk := sentinel.Entry("q", sentinel.WithArgs(v))
				if blk == nil {
					got++
					es = append(es, e)
				}
			}
			for _, e := range es {
				e.Exit()
			}
			if got != want {
				t.Fatalf("after %d admitted / %d blocked concurrent requests all exited, value %v admits %d entries, its threshold is %d (per-value in-flight figure did not return to zero)", admitted, blocked, v, got, want)
			}
		}
		c.ClassIf(blocked > 0, "had-blocks")
		c.NonTrivial()
	})
}

// ---- regressions --------------------------------------------------------------------------------

// P6: threshold 0 must admit nothing, not even the first request of a never-seen value.
func TestP_RegressP6(t *testing.T) {
	hx.Plain(t, func(c *hx.Case) {
		hx.Reset(hx.Epoch)
		hotspot.LoadRules([]*hotspot.Rule{{Resource: "p6", MetricType: hotspot.Concurrency, ParamIndex: 0, Threshold: 0}})
		e, b := sentinel.Entry("p6", sentinel.WithArgs("never-seen"))
		c.Op("concurrency rule T=0; first Entry of a never-seen value")
		still := b == nil
		if e != nil {
			e.Exit()
		}
		hx.Witness(t, "C06", "P6", "hotspot concurrency threshold 0: first entry of a never-seen value is admitted", still)
		c.NonTrivial()
	})
}

// P3 seen through C06: exit must release the unit of the value the entry was admitted with.
func TestP_RegressP3(t *testing.T) {
	hx.Plain(t, func(c *hx.Case) {
		runtime.GC()
		runtime.GC()
		hx.Reset(hx.Epoch)
		hotspot.LoadRules([]*hotspot.Rule{{Resource: "p3", MetricType: hotspot.Concurrency, ParamIndex: 0, Threshold: 2}})
		e1, _ := sentinel.Entry("p3", sentinel.WithArgs("A"))
		e2, _ := sentinel.Entry("p3", sentinel.WithArgs("B"))
		e1.Exit()
		e2.Exit()
		c.Op("T=2; e1=Entry(A); e2=Entry(B); exit both; then A must admit 2 again")
		n := 0
		var es []*base.SentinelEntry
		for i := 0; i < 3; i++ {
			if e, b := sentinel.Entry("p3", sentinel.WithArgs("A")); b == nil {
				n++
				es = append(es, e)
			}
		}
		for _, e := range es {
			e.Exit()
		}
		if n != 2 {
			t.Fatalf("value A admits %d entries after everything exited, threshold 2", n)
		}
		c.NonTrivial()
	})
}

// TestBlockedByAnotherModule: the resource also carries a circuit-breaking rule. While the breaker is open, requests for a
// value pass the hotspot concurrency check and are then rejected by the breaker: they never took a unit, so they give none
// back. Whatever the breaker does, the entries in flight for a value never exceed its threshold, and after everything has
// exited the value can again hold exactly its threshold.
func TestBlockedByAnotherModule(t *testing.T) {
	hx.Check(t, hx.N{Quick: 2000, Thorough: 20000}, func(t *rapid.T, c *hx.Case) {
		hx.Reset(hx.Epoch + uint64(rapid.IntRange(0, 999).Draw(t, "t0")))
		K := int64(rapid.IntRange(1, 3).Draw(t, "K"))
		if _, err := hotspot.LoadRules([]*hotspot.Rule{{ID: "h", Resource: "h", MetricType: hotspot.Concurrency, ParamIndex: 0, Threshold: K, SpecificItems: map[interface{}]int64{}}}); err != nil {
			t.Fatalf("hotspot rule: %v", err)
		}
		if _, err := cb.LoadRules([]*cb.Rule{{Id: "cb", Resource: "h", Strategy: cb.ErrorCount, RetryTimeoutMs: 1000, MinRequestAmount: 1, StatIntervalMs: 10000, Threshold: 1}}); err != nil {
			t.Fatalf("breaker rule: %v", err)
		}
		live := map[string][]*base.SentinelEntry{}
		cbBlocks := 0
		defer func() {
			for _, es := range live {
				for _, e := range es {
					e.Exit()
				}
			}
		}()
		for i, n := 0, rapid.IntRange(3, 40).Draw(t, "n"); i < n; i++ {
			v := rapid.SampledFrom([]string{"a", "a", "b"}).Draw(t, "v")
			switch op := rapid.IntRange(0, 5).Draw(t, "op"); {
			case op <= 2:
				e, blk := sentinel.Entry("h", sentinel.WithArgs(v))
				if e != nil {
					live[v] = append(live[v], e)
				} else if blk.BlockType() == base.BlockTypeCircuitBreaking {
					cbBlocks++
				}
				c.Op("Entry(%s) -> %v (in flight for it: %d)", v, blk, len(live[v]))
				if int64(len(live[v])) > K {
					t.Fatalf("value %s holds %d entries in flight, its threshold is %d (%d request(s) were rejected by the circuit breaker before: they released units they never took)", v, len(live[v]), K, cbBlocks)
				}
			case op == 3 && len(live[v]) > 0:
				e := live[v][0]
				live[v] = live[v][1:]
				if rapid.Bool().Draw(t, "fails") {
					e.Exit(base.WithError(errors.New("biz"))) // trips the breaker
				} else {
					e.Exit()
				}
				c.Op("Exit(%s)", v)
			default:
				dt := uint64(rapid.SampledFrom([]int{1, 500, 1000, 1001}).Draw(t, "dt"))
				hx.C.AddMs(dt)
				c.Op("advance %d", dt)
			}
		}
		if cbBlocks > 0 {
			c.NonTrivial()
		}
	})
}

// TestConfiguredCapacityHonoured: a concurrency rule with a configured parameter capacity above the built-in default of
// 4000. One entry for a value stays in flight while more distinct values than the default - but fewer than the configured
// capacity - come and go: the value's count is still there, a second entry for it is rejected (threshold 1), and after the
// first one exits exactly one is admitted again.
func TestConfiguredCapacityHonoured(t *testing.T) {
	hx.Check(t, hx.N{Quick: 3, Thorough: 12}, func(t *rapid.T, c *hx.Case) {
		hx.Reset(hx.Epoch)
		capacity := int64(rapid.SampledFrom([]int{4500, 6000, 20001}).Draw(t, "capacity"))
		others := 4001 + rapid.IntRange(0, int(capacity)-4100).Draw(t, "otherValues")
		beh := hotspot.Reject
		if rapid.Bool().Draw(t, "throttlingBehaviour") {
			beh = hotspot.Throttling
		}
		if _, err := hotspot.LoadRules([]*hotspot.Rule{{ID: "big", Resource: "h", MetricType: hotspot.Concurrency, ControlBehavior: beh, ParamIndex: 0, Threshold: 1, ParamsMaxCapacity: capacity, SpecificItems: map[interface{}]int64{}}}); err != nil {
			t.Fatalf("load: %v", err)
		}
		held, blk := sentinel.Entry("h", sentinel.WithArgs("hot"))
		if blk != nil {
			t.Fatalf("first entry blocked: %v", blk)
		}
		for i := 0; i < others; i++ {
			e, b := sentinel.Entry("h", sentinel.WithArgs(i))
			if b != nil {
				t.Fatalf("value %d blocked: %v", i, b)
			}
			e.Exit()
		}
		c.Op("capacity %d, %d other values while one entry of the hot value is in flight", capacity, others)
		if e, _ := sentinel.Entry("h", sentinel.WithArgs("hot")); e != nil {
			e.Exit()
			held.Exit()
			t.Fatalf("configured capacity %d, %d other distinct values came and went (fewer than the capacity): a second entry for the value with one entry in flight was admitted under threshold 1 - its counter was dropped", capacity, others)
		}
		held.Exit()
		e, b := sentinel.Entry("h", sentinel.WithArgs("hot"))
		if b != nil {
			t.Fatalf("after the only entry exited the value is still rejected: %v", b)
		}
		e2, _ := sentinel.Entry("h", sentinel.WithArgs("hot"))
		e.Exit()
		if e2 != nil {
			e2.Exit()
			t.Fatalf("two entries of the value in flight under threshold 1 after its first entry had exited: the exit was applied to a counter of its own")
		}
		c.NonTrivial()
	})
}
