package hx

import (
	cb "github.com/alibaba/sentinel-golang/core/circuitbreaker"
	"github.com/alibaba/sentinel-golang/core/config"
	"github.com/alibaba/sentinel-golang/core/flow"
	"github.com/alibaba/sentinel-golang/core/hotspot"
	"github.com/alibaba/sentinel-golang/core/isolation"
	"github.com/alibaba/sentinel-golang/core/stat"
	"github.com/alibaba/sentinel-golang/core/system"
	"github.com/alibaba/sentinel-golang/core/system_metric"
	"github.com/alibaba/sentinel-golang/logging"
)

func silenceLogger() {
	logging.ResetGlobalLoggerLevel(logging.ErrorLevel + 10)
}

// Reset puts the virtual clock at ms (first!) and then restores every library global a case can
// have touched: all rule managers, the resource-node map, the inbound node, breaker listeners,
// injected system metrics. The outlier module is deliberately not cleared (see DESIGN, P20).
// StatCfg is a process-wide statistic configuration: the resource nodes' array (GS buckets over GI ms) and their default
// read-only metric (MS samples over MI ms).
type StatCfg struct{ MS, MI, GS, GI uint32 }

// DefaultStat is the built-in configuration; StatCfgs are legal configurations (the first one is the default).
var DefaultStat = StatCfg{2, 1000, 20, 10000}
var StatCfgs = []StatCfg{{2, 1000, 20, 10000}, {2, 2000, 20, 10000}, {1, 1000, 20, 10000}, {4, 2000, 20, 10000}, {2, 1000, 40, 10000}, {1, 1000, 10, 10000}, {5, 5000, 10, 10000}, {1, 2000, 5, 10000}}

// Reset restores the default process-wide configuration and clears every module (see ResetCfg).
func Reset(ms uint64) { ResetCfg(ms, DefaultStat, nil) }

// ResetCfg installs a process-wide configuration (statistic geometry sc, then mutate applied to the entity), sets the
// virtual clock and clears every module, so that every node and rule of the case is created under that configuration.
func ResetCfg(ms uint64, sc StatCfg, mutate func(*config.Entity)) {
	ent := config.NewDefaultConfig()
	ent.Sentinel.Stat.MetricStatisticSampleCount, ent.Sentinel.Stat.MetricStatisticIntervalMs = sc.MS, sc.MI
	ent.Sentinel.Stat.GlobalStatisticSampleCountTotal, ent.Sentinel.Stat.GlobalStatisticIntervalMsTotal = sc.GS, sc.GI
	if mutate != nil {
		mutate(ent)
	}
	if err := config.CheckValid(ent); err != nil {
		panic("harness produced an illegal configuration: " + err.Error())
	}
	config.ResetGlobalConfig(ent)
	Install()
	C.SetMs(ms)
	C.Advance = false
	C.OnSleep = nil
	C.TakeSlept()
	_ = flow.ClearRules()
	_ = cb.ClearRules()
	cb.ClearStateChangeListeners()
	_ = isolation.ClearRules()
	_ = hotspot.ClearRules()
	_ = system.ClearRules()
	stat.ResetResourceNodeMap()
	stat.VerifResetInboundNode()
	system_metric.SetSystemLoad(system_metric.NotRetrievedLoadValue)
	system_metric.SetSystemCpuUsage(system_metric.NotRetrievedCpuUsageValue)
	system_metric.SetSystemMemoryUsage(system_metric.NotRetrievedMemoryValue)
}
