package hx

import (
	cb "github.com/alibaba/sentinel-golang/core/circuitbreaker"
	"github.com/alibaba/sentinel-golang/core/flow"
	"github.com/alibaba/sentinel-golang/core/hotspot"
	"github.com/alibaba/sentinel-golang/core/isolation"
	"github.com/alibaba/sentinel-golang/core/stat"
	"github.com/alibaba/sentinel-golang/core/system"
	"github.com/alibaba/sentinel-golang/core/system_metric"
	"github.com/alibaba/sentinel-golang/logging"
)

func silenceLogger() {
	logging.ResetGlobalLoggerLevel(logging.ErrorLevel + 10)
}

// Reset puts the virtual clock at ms (first!) and then restores every library global a case can
// have touched: all rule managers, the resource-node map, the inbound node, breaker listeners,
// injected system metrics. The outlier module is deliberately not cleared (see DESIGN, P20).
func Reset(ms uint64) {
	Install()
	C.SetMs(ms)
	C.Advance = false
	C.OnSleep = nil
	C.TakeSlept()
	_ = flow.ClearRules()
	_ = cb.ClearRules()
	cb.ClearStateChangeListeners()
	_ = isolation.ClearRules()
	_ = hotspot.ClearRules()
	_ = system.ClearRules()
	stat.ResetResourceNodeMap()
	stat.VerifResetInboundNode()
	system_metric.SetSystemLoad(system_metric.NotRetrievedLoadValue)
	system_metric.SetSystemCpuUsage(system_metric.NotRetrievedCpuUsageValue)
	system_metric.SetSystemMemoryUsage(system_metric.NotRetrievedMemoryValue)
}
