// Package hx is the common machinery of the verification harness: virtual clock, global reset,
// evidence collection and the rapid wrapper every property check runs through.
package hx

import (
	"sync"
	"time"

	"github.com/alibaba/sentinel-golang/util"
)

// Clock is a virtual util.Clock. Time only moves when the harness moves it; Sleep requests are
// logged and, when Advance is set, move the clock (a serial caller that really blocks).
type Clock struct {
	mu      sync.Mutex
	now     int64 // ns since the Unix epoch
	slept   []time.Duration
	Advance bool
	// OnSleep, when set, is called (outside the lock) for each Sleep request.
	OnSleep func(d time.Duration)
}

func (c *Clock) Now() time.Time {
	c.mu.Lock()
	defer c.mu.Unlock()
	return time.Unix(0, c.now).UTC()
}

func (c *Clock) Sleep(d time.Duration) {
	c.mu.Lock()
	c.slept = append(c.slept, d)
	if c.Advance && d > 0 {
		c.now += int64(d)
	}
	f := c.OnSleep
	c.mu.Unlock()
	if f != nil {
		f(d)
	}
}

func (c *Clock) CurrentTimeMillis() uint64 {
	c.mu.Lock()
	defer c.mu.Unlock()
	return uint64(c.now) / 1e6
}

func (c *Clock) CurrentTimeNano() uint64 {
	c.mu.Lock()
	defer c.mu.Unlock()
	return uint64(c.now)
}

func (c *Clock) SetMs(ms uint64) { c.mu.Lock(); c.now = int64(ms) * 1e6; c.mu.Unlock() }
func (c *Clock) SetNs(ns int64)  { c.mu.Lock(); c.now = ns; c.mu.Unlock() }
func (c *Clock) AddMs(ms uint64) { c.mu.Lock(); c.now += int64(ms) * 1e6; c.mu.Unlock() }
func (c *Clock) AddNs(ns int64)  { c.mu.Lock(); c.now += ns; c.mu.Unlock() }
func (c *Clock) Ms() uint64      { return c.CurrentTimeMillis() }
func (c *Clock) Ns() int64       { c.mu.Lock(); defer c.mu.Unlock(); return c.now }

// TakeSlept returns and clears the log of Sleep requests.
func (c *Clock) TakeSlept() []time.Duration {
	c.mu.Lock()
	defer c.mu.Unlock()
	s := c.slept
	c.slept = nil
	return s
}

// C is the process-wide virtual clock.
var C = &Clock{}

// Epoch is a virtual "now" later than any real instant at which package-level library state was
// created (2030-03-17); cases add a drawn phase to it.
const Epoch = uint64(1_900_000_000_000)

var installOnce sync.Once

// Install replaces the library clock by C and silences the logger. Idempotent.
func Install() {
	installOnce.Do(func() {
		silenceLogger()
		util.SetClock(C)
	})
}
