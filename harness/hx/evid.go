package hx

import (
	"bufio"
	"encoding/binary"
	"encoding/json"
	"flag"
	"fmt"
	"github.com/alibaba/sentinel-golang/core/base"
	"hash/fnv"
	"os"
	"path/filepath"
	"sort"
	"strconv"
	"strings"
	"sync"
	"testing"
	"time"

	"pgregory.net/rapid"
)

// ---------------------------------------------------------------------------------------------
// Case: what one generated case looked like (for the non-trivial count, class histogram, samples).

type Case struct {
	test       string
	ops        []string
	classes    map[string]bool
	counters   map[string]int64
	nontrivial bool
	done       bool
}

func newCase(test string) *Case {
	return &Case{test: test, classes: map[string]bool{}, counters: map[string]int64{}}
}

// Op appends one line to the canonical description of the case (operation, draw, decision).
func (c *Case) Op(format string, args ...any) {
	if len(c.ops) < 400 {
		c.ops = append(c.ops, fmt.Sprintf(format, args...))
	}
}

// Class marks the case as belonging to a named class (counted once per case).
func (c *Case) Class(name string) { c.classes[name] = true }

// ClassIf is Class under a condition.
func (c *Case) ClassIf(cond bool, name string) {
	if cond {
		c.classes[name] = true
	}
}

// NonTrivial marks the case as non-trivial by the property's stated rule.
func (c *Case) NonTrivial() { c.nontrivial = true }

// Count adds n to a named run-wide counter (oracle comparisons, cut points, excluded shapes ...).
func (c *Case) Count(name string, n int64) { c.counters[name] += n }

// Excluded records that a shape listed in known_findings.jsonl was excluded by construction.
func (c *Case) Excluded(finding string) { c.counters["excluded_known:"+finding]++ }

func (c *Case) hash() uint64 {
	h := fnv.New64a()
	h.Write([]byte(c.test))
	for _, o := range c.ops {
		h.Write([]byte{0})
		h.Write([]byte(o))
	}
	return h.Sum64()
}

// ---------------------------------------------------------------------------------------------
// collector

type testStat struct {
	Requested int  `json:"requested"`
	Completed int  `json:"completed"`
	Failed    bool `json:"failed"`
	Plain     bool `json:"plain,omitempty"`
}

type sample struct {
	Test       string   `json:"test"`
	NonTrivial bool     `json:"nontrivial"`
	Classes    []string `json:"classes,omitempty"`
	Ops        []string `json:"ops"`
}

type collector struct {
	mu          sync.Mutex
	evaluations int64
	hashes      map[uint64]struct{}
	classes     map[string]int64
	counters    map[string]int64
	samples     []sample
	tests       map[string]*testStat
	failing     bool // a case failed: everything after it is shrinking, not counted
	start       time.Time
}

var col = &collector{hashes: map[uint64]struct{}{}, classes: map[string]int64{}, counters: map[string]int64{}, tests: map[string]*testStat{}, start: time.Now()}

func (k *collector) commit(c *Case) {
	k.mu.Lock()
	defer k.mu.Unlock()
	if k.failing {
		return
	}
	k.evaluations++
	ts := k.tests[c.test]
	if ts != nil {
		ts.Completed++
	}
	for n := range c.classes {
		k.classes[n]++
	}
	for n, v := range c.counters {
		k.counters[n] += v
	}
	if c.nontrivial {
		k.hashes[c.hash()] = struct{}{}
	}
	// samples: per test keep the first two non-trivial cases and one other.
	nt, other := 0, 0
	for _, s := range k.samples {
		if s.Test == c.test {
			if s.NonTrivial {
				nt++
			} else {
				other++
			}
		}
	}
	if (c.nontrivial && nt < 2) || (!c.nontrivial && other < 1 && len(c.ops) > 0) {
		ops := c.ops
		if len(ops) > 80 {
			ops = append(append([]string{}, ops[:78]...), fmt.Sprintf("... (%d more)", len(c.ops)-78))
		}
		var cl []string
		for n := range c.classes {
			cl = append(cl, n)
		}
		sort.Strings(cl)
		k.samples = append(k.samples, sample{Test: c.test, NonTrivial: c.nontrivial, Classes: cl, Ops: ops})
	}
}

// ---------------------------------------------------------------------------------------------
// tiers and counts

// N is the number of cases of a rapid check per process: Quick in the quick tier, Thorough per
// shard in the thorough tier.
type N struct{ Quick, Thorough int }

// Tier returns "quick" or "thorough" (env VERIF_TIER).
func Tier() string {
	if os.Getenv("VERIF_TIER") == "thorough" {
		return "thorough"
	}
	return "quick"
}

func Thorough() bool { return Tier() == "thorough" }

func (n N) pick() int {
	v := n.Quick
	if Thorough() {
		v = n.Thorough
	}
	if s := os.Getenv("VERIF_CHECKS"); s != "" { // development override
		if x, err := strconv.Atoi(s); err == nil {
			v = x
		}
	}
	if s := os.Getenv("VERIF_SCALE"); s != "" {
		if x, err := strconv.ParseFloat(s, 64); err == nil {
			v = int(float64(v) * x)
		}
	}
	if v < 1 {
		v = 1
	}
	return v
}

// Check runs prop as a rapid property n times (per tier), with evidence collection. Every random
// choice of prop must be a rapid draw.
func Check(t *testing.T, n N, prop func(t *rapid.T, c *Case)) {
	t.Helper()
	Install()
	cnt := n.pick()
	if err := flag.Set("rapid.checks", strconv.Itoa(cnt)); err != nil {
		t.Fatalf("cannot set rapid.checks: %v", err)
	}
	name := t.Name()
	col.mu.Lock()
	ts := &testStat{Requested: cnt}
	col.tests[name] = ts
	col.mu.Unlock()
	rapid.Check(t, func(rt *rapid.T) {
		c := newCase(name)
		defer func() {
			if c.done && !rt.Failed() {
				col.commit(c)
			} else if rt.Failed() {
				// everything after the first failing case is shrinking: not counted
				col.mu.Lock()
				col.failing = true
				ts.Failed = true
				col.mu.Unlock()
			}
		}()
		prop(rt, c)
		c.done = true
	})
	if t.Failed() {
		col.mu.Lock()
		ts.Failed = true
		col.mu.Unlock()
	}
}

// Plain runs f as one counted, non-generated case (systematic enumerations, regressions,
// known-finding witnesses).
func Plain(t *testing.T, f func(c *Case)) {
	t.Helper()
	Install()
	name := t.Name()
	col.mu.Lock()
	ts := col.tests[name]
	if ts == nil {
		ts = &testStat{Plain: true}
		col.tests[name] = ts
	}
	ts.Requested++
	col.mu.Unlock()
	c := newCase(name)
	f(c)
	if !t.Failed() {
		col.commit(c)
	} else {
		col.mu.Lock()
		ts.Failed = true
		col.mu.Unlock()
	}
}

// ---------------------------------------------------------------------------------------------
// known findings (read-only)

type Finding struct {
	Property  string `json:"property"`
	ID        string `json:"id"`
	Status    string `json:"status"` // "known" | "fixed"
	Signature string `json:"signature"`
	Witness   string `json:"witness"`
	Commit    string `json:"commit,omitempty"`
}

var (
	findingsOnce sync.Once
	findings     map[string]Finding
)

func Root() string {
	if r := os.Getenv("VERIF_ROOT"); r != "" {
		return r
	}
	return "/verif"
}

func loadFindings() {
	findings = map[string]Finding{}
	f, err := os.Open(filepath.Join(Root(), "known_findings.jsonl"))
	if err != nil {
		return
	}
	defer f.Close()
	sc := bufio.NewScanner(f)
	sc.Buffer(make([]byte, 1<<20), 1<<20)
	for sc.Scan() {
		line := strings.TrimSpace(sc.Text())
		if line == "" || strings.HasPrefix(line, "#") || strings.HasPrefix(line, "fixed:") {
			continue
		}
		var fd Finding
		if json.Unmarshal([]byte(line), &fd) == nil && fd.ID != "" {
			findings[fd.ID] = fd
		}
	}
}

// Known reports whether finding id is listed with status "known" in known_findings.jsonl. Generators
// exclude the shape of a known finding by construction (and count it with Case.Excluded); a
// finding that is not listed (never was, or has been fixed) is not excluded.
func Known(id string) bool {
	findingsOnce.Do(loadFindings)
	f, ok := findings[id]
	return ok && f.Status == "known"
}

// Witness reports the outcome of re-executing the witness of finding id for property prop:
// still failing and listed -> one KNOWN-FINDING line; still failing and not listed -> test
// failure (a violation); no longer failing -> nothing but a note.
func Witness(t *testing.T, prop, id, what string, stillFails bool) {
	t.Helper()
	if stillFails {
		if Known(id) {
			fmt.Printf("KNOWN-FINDING: property=%s %s: %s\n", prop, id, what)
		} else {
			t.Fatalf("finding %s (%s) reproduces but is not listed as known: %s", id, prop, what)
		}
	} else if Known(id) {
		fmt.Printf("NOTE: listed finding %s of %s no longer reproduces (witness passes)\n", id, prop)
	}
}

// ---------------------------------------------------------------------------------------------
// Main: run the tests of a property package and write the shard evidence.

type shardOut struct {
	Property    string               `json:"property"`
	Tier        string               `json:"tier"`
	Evaluations int64                `json:"evaluations"`
	NonTrivial  int                  `json:"nontrivial"`
	Classes     map[string]int64     `json:"classes"`
	Counters    map[string]int64     `json:"counters"`
	Samples     []sample             `json:"samples"`
	Tests       map[string]*testStat `json:"tests"`
	WallS       float64              `json:"wall_s"`
	Exit        int                  `json:"exit"`
}

func Main(m *testing.M, property string) { MainWith(m, property, nil) }

// MainWith is Main with a clean-up function run before the process exits.
func MainWith(m *testing.M, property string, cleanup func()) {
	Install()
	code := m.Run()
	if out := os.Getenv("VERIF_EVID_OUT"); out != "" {
		col.mu.Lock()
		so := shardOut{Property: property, Tier: Tier(), Evaluations: col.evaluations, NonTrivial: len(col.hashes),
			Classes: col.classes, Counters: col.counters, Samples: col.samples, Tests: col.tests,
			WallS: time.Since(col.start).Seconds(), Exit: code}
		b, _ := json.Marshal(so)
		_ = os.WriteFile(out, b, 0o644)
		hb := make([]byte, 0, 8*len(col.hashes))
		for h := range col.hashes {
			hb = binary.LittleEndian.AppendUint64(hb, h)
		}
		_ = os.WriteFile(out+".hashes", hb, 0o644)
		col.mu.Unlock()
	}
	if cleanup != nil {
		cleanup()
	}
	os.Exit(code)
}

// ScratchCase returns a Case that is never committed to the evidence (helper runs, witnesses).
func ScratchCase() *Case { return newCase("scratch") }

// BlockSnapshot renders everything a caller can read from a block error; a block error handed to a caller must render
// the same for as long as the caller keeps it, whatever other entries do afterwards.
func BlockSnapshot(b *base.BlockError) string {
	return fmt.Sprintf("type=%v msg=%q rule=%v value=%v", b.BlockType(), b.BlockMsg(), b.TriggeredRule(), b.TriggeredValue())
}
