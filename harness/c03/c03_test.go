// C03: circuit breaker trips, blocks and recovers exactly as specified.
package c03

import (
	"errors"
	"fmt"
	"math"
	"testing"

	sentinel "github.com/alibaba/sentinel-golang/api"
	"github.com/alibaba/sentinel-golang/core/base"
	cb "github.com/alibaba/sentinel-golang/core/circuitbreaker"
	"github.com/alibaba/sentinel-golang/core/flow"
	"pgregory.net/rapid"

	"verif/harness/hx"
	"verif/harness/model"
)

func TestMain(m *testing.M) { hx.Main(m, "C03") }

// listener records every notification.
type listener struct {
	log   []model.Transition
	trips map[string][]float64
}

func (l *listener) OnTransformToClosed(prev cb.State, rule cb.Rule) {
	l.log = append(l.log, model.Transition{From: int(prev), To: model.Closed, Rule: rule.Id})
}
func (l *listener) OnTransformToOpen(prev cb.State, rule cb.Rule, snapshot interface{}) {
	l.log = append(l.log, model.Transition{From: int(prev), To: model.Open, Rule: rule.Id})
	if prev == cb.Closed { // the triggered value handed to the listeners: the window's error count, or its ratio
		v := math.NaN()
		switch x := snapshot.(type) {
		case float64:
			v = x
		case uint64:
			v = float64(x)
		case int64:
			v = float64(x)
		case int:
			v = float64(x)
		}
		if l.trips == nil {
			l.trips = map[string][]float64{}
		}
		l.trips[rule.Id] = append(l.trips[rule.Id], v)
	}
}
func (l *listener) OnTransformToHalfOpen(prev cb.State, rule cb.Rule) {
	l.log = append(l.log, model.Transition{From: int(prev), To: model.HalfOpen, Rule: rule.Id})
}

func DrawRule(t *rapid.T, id, res string) (*cb.Rule, model.BreakerRule) {
	return DrawRuleLike(t, id, res, nil)
}

// DrawRuleLike: with like != nil the rule has like's strategy and statistic geometry (interval, bucket count), so that the
// loader considers the two statistics interchangeable; everything else is drawn.
func DrawRuleLike(t *rapid.T, id, res string, like *cb.Rule) (*cb.Rule, model.BreakerRule) {
	st := rapid.IntRange(0, 2).Draw(t, "strategy")
	if like != nil {
		st = int(like.Strategy)
	}
	var thr float64
	if st == model.ErrorCount {
		thr = float64(rapid.IntRange(0, 4).Draw(t, "count"))
	} else {
		thr = rapid.SampledFrom([]float64{0, 0.2, 1.0 / 3, 0.5, 2.0 / 3, 1}).Draw(t, "ratio")
	}
	r := &cb.Rule{Id: id, Resource: res, Strategy: cb.Strategy(st),
		RetryTimeoutMs:               uint32(rapid.SampledFrom([]int{1, 10, 100, 1000}).Draw(t, "retry")),
		MinRequestAmount:             uint64(rapid.IntRange(0, 5).Draw(t, "min")),
		StatIntervalMs:               uint32(rapid.SampledFrom([]int{10, 100, 1000, 3000}).Draw(t, "interval")),
		StatSlidingWindowBucketCount: uint32(rapid.SampledFrom([]int{0, 1, 2, 5, 7, 10}).Draw(t, "buckets")),
		MaxAllowedRtMs:               uint64(rapid.SampledFrom([]int{0, 5, 50}).Draw(t, "maxRt")),
		Threshold:                    thr,
		ProbeNum:                     uint64(rapid.IntRange(0, 3).Draw(t, "probeNum")),
	}
	if like != nil {
		r.StatIntervalMs, r.StatSlidingWindowBucketCount = like.StatIntervalMs, like.StatSlidingWindowBucketCount
		if r.RetryTimeoutMs == like.RetryTimeoutMs {
			r.RetryTimeoutMs++ // never a twin: rules are matched to their old breakers modulo ID, a twin is indistinguishable from the original
		}
	}
	m := model.BreakerRule{ID: id, Strategy: st, RetryTimeoutMs: uint64(r.RetryTimeoutMs), MinRequestAmount: r.MinRequestAmount,
		StatIntervalMs: uint64(r.StatIntervalMs), BucketCount: uint64(r.StatSlidingWindowBucketCount), MaxAllowedRtMs: r.MaxAllowedRtMs,
		Threshold: thr, ProbeNum: r.ProbeNum}
	return r, m
}

func legalPath(log []model.Transition, rule string) error {
	cur := model.Closed
	for i, tr := range log {
		if tr.Rule != rule {
			continue
		}
		if tr.From != cur {
			return fmt.Errorf("notification %d of rule %s reports previous state %d, the machine was in %d", i, rule, tr.From, cur)
		}
		ok := (tr.From == model.Closed && tr.To == model.Open) || (tr.From == model.Open && tr.To == model.HalfOpen) ||
			(tr.From == model.HalfOpen && (tr.To == model.Open || tr.To == model.Closed))
		if !ok {
			return fmt.Errorf("notification %d of rule %s is the illegal transition %d->%d", i, rule, tr.From, tr.To)
		}
		cur = tr.To
	}
	return nil
}

func TestBreakerMachine(t *testing.T) {
	hx.Check(t, hx.N{Quick: 36000, Thorough: 400000}, func(t *rapid.T, c *hx.Case) {
		hx.Reset(hx.Epoch + uint64(rapid.IntRange(0, 2999).Draw(t, "t0")))
		lis := &listener{}
		cb.RegisterStateChangeListeners(lis)
		nb := rapid.IntRange(1, 2).Draw(t, "breakers")
		var mlog []model.Transition
		var rules []*cb.Rule
		var ms []*model.Breaker
		// staged: the first rule is loaded alone, then the list with both (in either order; no traffic in between). The second
		// rule may have the first one's strategy and statistic geometry: each breaker still counts in a window of its own.
		staged := nb == 2 && rapid.IntRange(0, 2).Draw(t, "stagedLoad") == 0
		for i := 0; i < nb; i++ {
			var like *cb.Rule
			if staged && i == 1 && rapid.IntRange(0, 3).Draw(t, "sameStatistic") > 0 {
				like = rules[0]
			}
			r, mr := DrawRuleLike(t, fmt.Sprintf("r%d", i), "res", like)
			if staged && i == 1 && r.RetryTimeoutMs == rules[0].RetryTimeoutMs {
				// never a twin: the loader matches rules to their old breakers modulo ID (and modulo the fields the strategy does
				// not use); two rules with different retry timeouts are never interchangeable for it
				r.RetryTimeoutMs++
				mr.RetryTimeoutMs++
			}
			rules = append(rules, r)
			ms = append(ms, model.NewBreaker(mr, &mlog))
			c.Op("rule %s strategy=%d thr=%v min=%d retry=%d interval=%d buckets=%d maxRt=%d probeNum=%d", r.Id, r.Strategy, r.Threshold, r.MinRequestAmount, r.RetryTimeoutMs, r.StatIntervalMs, r.StatSlidingWindowBucketCount, r.MaxAllowedRtMs, r.ProbeNum)
		}
		if staged {
			first := *rules[0]
			var err error
			if rapid.Bool().Draw(t, "firstPerResource") {
				_, err = cb.LoadRulesOfResource("res", []*cb.Rule{&first})
			} else {
				_, err = cb.LoadRules([]*cb.Rule{&first})
			}
			if err != nil || len(cb.GetRulesOfResource("res")) != 1 {
				t.Fatalf("staged load of the first rule: %v", err)
			}
			c.Class("staged-load(second rule added by a reload)")
			if rapid.Bool().Draw(t, "addedRuleFirst") { // the list order is also the order the model consults the breakers in
				rules[0], rules[1] = rules[1], rules[0]
				ms[0], ms[1] = ms[1], ms[0]
			}
			if rapid.Bool().Draw(t, "secondPerResource") {
				if _, err := cb.LoadRulesOfResource("res", rules); err != nil {
					t.Fatalf("LoadRulesOfResource: %v", err)
				}
			} else if _, err := cb.LoadRules(rules); err != nil {
				t.Fatalf("LoadRules: %v", err)
			}
		} else if _, err := cb.LoadRules(rules); err != nil {
			t.Fatalf("LoadRules: %v", err)
		}
		queued := false
		if rapid.IntRange(0, 3).Draw(t, "pacingFlowRule") == 0 {
			// another module on the same resource: a pacing rule that queues requests (never rejects: the limit is an hour)
			if _, err := flow.LoadRules([]*flow.Rule{{Resource: "res", ControlBehavior: flow.Throttling, Threshold: float64(rapid.SampledFrom([]int{1, 2, 5, 10, 100}).Draw(t, "paceT")), MaxQueueingTimeMs: 3600000}}); err != nil {
				t.Fatalf("flow rule: %v", err)
			}
			hx.C.Advance = true
			defer func() { hx.C.Advance = false }()
			c.Class("pacing-flow-rule-on-the-resource")
		}
		defer func() { c.ClassIf(queued, "request-queued-before-the-breakers-were-consulted") }()
		if got := len(cb.GetRulesOfResource("res")); got != nb {
			t.Fatalf("%d valid rules, module reports %d", nb, got)
		}
		type lv struct {
			id     int
			e      *base.SentinelEntry
			start  uint64
			states []int // model state of every breaker when the request started
		}
		var lives []*lv
		defer func() {
			for _, l := range lives {
				l.e.Exit()
			}
		}()
		next := 0
		sawOpen, sawHalf, straggler, rollback := false, false, false, false
		n := rapid.IntRange(1, 40).Draw(t, "n")
		runLeft, runErr := 0, false
		phased, slid := rapid.IntRange(0, 3).Draw(t, "phased") == 0, true
		if phased {
			c.Class("phased-history(run-per-bucket)")
		}
		for i := 0; i < n; i++ {
			now := hx.C.Ms()
			op := rapid.IntRange(0, 6).Draw(t, "op")
			forceSlide := false
			if phased && runLeft == 0 { // phased histories: a homogeneous run per bucket, then the window slides by whole buckets
				if slid {
					runLeft, runErr, slid = 2*rapid.IntRange(1, 4).Draw(t, "run"), rapid.Bool().Draw(t, "runErr"), false
				} else {
					op, forceSlide, slid = 0, true, true
				}
			}
			if runLeft == 0 && op == 6 { // a run of requests that all end the same way: fills a bucket homogeneously
				runLeft = 2 * rapid.IntRange(2, 5).Draw(t, "run")
				runErr = rapid.Bool().Draw(t, "runErr")
			}
			forcedExit := false
			if runLeft > 0 {
				if runLeft%2 == 0 {
					op = 1
				} else {
					op, forcedExit = 5, len(lives) > 0
				}
				runLeft--
			}
			switch {
			case op == 0:
				var dt uint64
				dk := 4
				if !forceSlide {
					dk = rapid.IntRange(0, 5).Draw(t, "dk")
				}
				switch dk {
				case 4, 5: // whole buckets of one rule: the oldest part of its window slides out, the rest stays
					r := rules[rapid.IntRange(0, nb-1).Draw(t, "ri")]
					bc := r.StatSlidingWindowBucketCount
					if bc == 0 || r.StatIntervalMs%bc != 0 {
						bc = 1
					}
					bl := uint64(r.StatIntervalMs / bc)
					dt = bl * uint64(rapid.IntRange(1, int(bc)).Draw(t, "nbuckets"))
					if rapid.Bool().Draw(t, "toBoundary") { // land exactly on the next bucket boundary first
						dt -= now % bl
					}
					if dt == 0 {
						dt = bl
					}
				case 0:
					dt = uint64(rapid.SampledFrom([]int{1, 2, 5, 9, 10, 50, 99, 100, 101, 999, 1000, 3000, 3001}).Draw(t, "dt"))
				case 1:
					dt = uint64(rules[rapid.IntRange(0, nb-1).Draw(t, "ri")].RetryTimeoutMs)
				case 2:
					dt = uint64(rules[rapid.IntRange(0, nb-1).Draw(t, "ri")].StatIntervalMs)
				case 3:
					m := ms[rapid.IntRange(0, nb-1).Draw(t, "ri")]
					if m.State == model.Open && m.RetryAt > now {
						dt = m.RetryAt - now - uint64(rapid.IntRange(0, 1).Draw(t, "early")) // exactly at / 1 ms before the deadline
					} else {
						dt = 1
					}
				}
				hx.C.AddMs(dt)
				c.Op("advance %d", dt)
			case op <= 2 || len(lives) == 0:
				// expected: breakers are consulted in order; the first rejecting one blocks; probes made by
				// this request on earlier breakers are rolled back
				exp := ""
				var probed []*model.Breaker
				states := make([]int, nb)
				for k, m := range ms {
					states[k] = m.State
				}
				// (a pacing flow rule on the resource may make the single caller sleep inside Entry, before the breakers are
				// consulted: they see the instant the wait is over, the request's response time runs from the Entry call)
				e, blk := sentinel.Entry("res")
				called := now
				now = hx.C.Ms()
				if now != called {
					queued = true
				}
				for _, m := range ms {
					pass, tr := m.TryPass(now)
					if tr {
						probed = append(probed, m)
					}
					if !pass {
						exp = m.R.ID
						break
					}
				}
				if exp != "" {
					for _, m := range probed {
						m.Rollback()
						rollback = true
					}
				}
				c.Op("t=%d Entry (waited %d ms) -> blocked=%v (model: %q)", called, now-called, blk != nil, exp)
				if e != nil {
					lives = append(lives, &lv{next, e, called, states})
					next++
				}
				if (exp != "") != (blk != nil) {
					t.Fatalf("t=%d request: reference machine says rejected-by=%q (states %v), library returned block=%v", now, exp, describe(ms), blk)
				}
				if blk != nil {
					if blk.BlockType() != base.BlockTypeCircuitBreaking {
						t.Fatalf("block type %v", blk.BlockType())
					}
					if r, ok := blk.TriggeredRule().(*cb.Rule); !ok || r.Id != exp {
						t.Fatalf("blocked by %v, first rejecting breaker is %s", blk.TriggeredRule(), exp)
					}
				}
			default:
				k, withErr := len(lives)-1, runErr
				if !forcedExit {
					k = rapid.IntRange(0, len(lives)-1).Draw(t, "k")
					withErr = rapid.Bool().Draw(t, "err")
				}
				l := lives[k]
				lives = append(lives[:k], lives[k+1:]...)
				rt := now - l.start
				for k, m := range ms {
					if m.State != l.states[k] {
						straggler = true
					}
					m.Complete(now, rt, withErr)
				}
				if withErr {
					// the error reaches the breakers through Exit or through TraceError; a block error of a rejected downstream
					// call is an error like any other
					var er error = errors.New("biz")
					switch rapid.IntRange(0, 3).Draw(t, "errorKind") {
					case 1:
						er = base.NewBlockErrorWithMessage(base.BlockTypeFlow, "downstream rejected")
					case 2:
						er = fmt.Errorf("calling downstream: %w", base.NewBlockErrorWithMessage(base.BlockTypeIsolation, "downstream busy"))
					}
					if rapid.Bool().Draw(t, "viaTraceError") {
						sentinel.TraceError(l.e, er)
						l.e.Exit()
					} else {
						l.e.Exit(base.WithError(er))
					}
				} else {
					l.e.Exit()
				}
				c.Op("t=%d complete #%d rt=%d err=%v", now, l.id, rt, withErr)
			}
			// the complete listener log equals the model's, after every step
			if len(lis.log) != len(mlog) {
				t.Fatalf("after step %d: listeners saw %v, reference machine produced %v", i, lis.log, mlog)
			}
			for _, m := range ms { // the triggered value reported with every Closed->Open transition
				got := lis.trips[m.R.ID]
				if len(got) != len(m.TripValues) {
					t.Fatalf("after step %d: rule %s opened %d time(s) from closed per the listeners, %d per the reference", i, m.R.ID, len(got), len(m.TripValues))
				}
				for j := range got {
					if math.IsNaN(got[j]) || math.Abs(got[j]-m.TripValues[j]) > 1e-9 {
						t.Fatalf("after step %d: the listeners of rule %s were told the triggered value %v when it opened (opening #%d), the window held %v", i, m.R.ID, got[j], j, m.TripValues[j])
					}
				}
			}
			for j := range mlog {
				if lis.log[j] != mlog[j] {
					t.Fatalf("after step %d: notification %d is %+v, reference %+v (full: %v vs %v)", i, j, lis.log[j], mlog[j], lis.log, mlog)
				}
			}
			for _, m := range ms {
				if m.State == model.Open {
					sawOpen = true
				}
				if m.State == model.HalfOpen {
					sawHalf = true
				}
			}
		}
		for _, r := range rules {
			if err := legalPath(lis.log, r.Id); err != nil {
				t.Fatalf("listener log is not a legal path from Closed: %v", err)
			}
		}
		c.ClassIf(sawOpen, "opened")
		c.ClassIf(sawHalf, "half-open")
		c.ClassIf(straggler, "straggler")
		c.ClassIf(rollback, "multi-breaker-rollback")
		c.Count("transitions", int64(len(mlog)))
		if (sawOpen && sawHalf) || straggler || rollback {
			c.NonTrivial()
		}
	})
}

func describe(ms []*model.Breaker) string {
	s := ""
	for _, m := range ms {
		s += fmt.Sprintf("%s:state=%d retryAt=%d probes=%d ", m.R.ID, m.State, m.RetryAt, m.Probes)
	}
	return s
}
