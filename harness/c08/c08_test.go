// C08: sliding-window statistics equal the aligned-bucket reference for any history.
package c08

import (
	"fmt"
	"math"
	"sync/atomic"
	"testing"

	"github.com/alibaba/sentinel-golang/core/base"
	"github.com/alibaba/sentinel-golang/core/config"
	"github.com/alibaba/sentinel-golang/core/stat"
	sbase "github.com/alibaba/sentinel-golang/core/stat/base"
	"pgregory.net/rapid"

	"verif/harness/hx"
	"verif/harness/model"
)

func TestMain(m *testing.M) { hx.Main(m, "C08") }

type view struct {
	vs, vi uint32
	m      *sbase.SlidingWindowMetric
}

func tiles(vs, vi, n, iv uint32) bool {
	if vs == 0 || vi == 0 || vi%vs != 0 || iv%vi != 0 {
		return false
	}
	return (vi/vs)%(iv/n) == 0
}

// drawStep draws a time step that favours bucket and cycle boundaries and idle gaps.
func drawStep(t *rapid.T, c *hx.Case, now uint64, bl, iv uint32) uint64 {
	var dt uint64
	switch rapid.IntRange(0, 6).Draw(t, "dk") {
	case 0:
		dt = 0
	case 1:
		dt = uint64(rapid.IntRange(1, int(bl)).Draw(t, "dt"))
	case 2:
		dt = uint64(bl) - now%uint64(bl) // exactly onto the next bucket boundary
		c.Class("step-to-bucket-boundary")
	case 3:
		dt = uint64(iv) - now%uint64(iv) // exactly onto the next cycle boundary
		c.Class("step-to-cycle-boundary")
	case 4:
		dt = uint64(rapid.IntRange(1, int(3*iv)).Draw(t, "dt"))
	case 5:
		dt = uint64(iv) + uint64(rapid.IntRange(0, int(2*iv)).Draw(t, "dt")) // idle gap > whole array
		c.Class("idle-gap>interval")
	case 6:
		dt = uint64(iv) // exactly one array interval
		c.Class("step-exactly-interval")
	}
	return dt
}

// TestWindowReference drives a BucketLeapArray and every valid derived view with a generated
// history and compares every getter with the aligned-window reference after every step.
func TestWindowReference(t *testing.T) {
	hx.Check(t, hx.N{Quick: 24000, Thorough: 400000}, func(t *rapid.T, c *hx.Case) {
		n := uint32(rapid.IntRange(1, 20).Draw(t, "n"))
		bl := uint32(rapid.SampledFrom([]int{1, 2, 5, 10, 100, 500, 1000}).Draw(t, "bl"))
		iv := n * bl
		var now uint64
		nearZero := rapid.IntRange(0, 3).Draw(t, "nearzero") == 0
		if nearZero && hx.Known("P7") {
			nearZero = false
			c.Excluded("P7")
		}
		if nearZero {
			now = uint64(rapid.IntRange(1, int(3*iv)).Draw(t, "t0"))
			c.Class("near-zero-start")
		} else {
			now = hx.Epoch + uint64(rapid.IntRange(0, int(3*iv)).Draw(t, "t0"))
		}
		excludeP21 := hx.Known("P21")
		hx.C.SetMs(now)
		arr := sbase.NewBucketLeapArray(n, iv)
		c.Op("array n=%d bucket=%dms t0=%d", n, bl, now)

		var views []view
		for vs := uint32(1); vs <= n; vs++ {
			for k := uint32(1); k <= n; k++ {
				vi := k * bl
				m, err := sbase.NewSlidingWindowMetric(vs, vi, arr)
				if tiles(vs, vi, n, iv) != (err == nil) {
					t.Fatalf("view(%d,%d) over array(%d,%d): tiles=%v but constructor error=%v", vs, vi, n, iv, tiles(vs, vi, n, iv), err)
				}
				if err == nil {
					views = append(views, view{vs, vi, m})
				}
			}
		}
		// bound the per-step cost: all views when few, else a drawn subset that always has the full one
		if len(views) > 6 {
			idx := rapid.SliceOfNDistinct(rapid.IntRange(0, len(views)-1), 5, 5, rapid.ID[int]).Draw(t, "views")
			sel := []view{}
			for _, i := range idx {
				sel = append(sel, views[i])
			}
			views = sel
		}

		var evs model.Events
		B := uint64(bl)
		I := uint64(iv)
		boundaryRead, gapRead, earlyPrevRead := false, false, false
		steps := rapid.IntRange(1, 25).Draw(t, "steps")
		for i := 0; i < steps; i++ {
			dt := drawStep(t, c, now, bl, iv)
			now += dt
			hx.C.SetMs(now)
			nev := rapid.IntRange(0, 3).Draw(t, "nev")
			for j := 0; j < nev; j++ {
				k := rapid.IntRange(0, 5).Draw(t, "kind")
				amt := int64(rapid.IntRange(0, 9).Draw(t, "amt"))
				if k == model.Rt && rapid.IntRange(0, 4).Draw(t, "longRt") == 0 { // a response time beyond a minute is recorded as it is
					amt = int64(rapid.SampledFrom([]int{59999, 60000, 60001, 80000, 3600000}).Draw(t, "rt"))
				}
				if k == model.Conc {
					arr.UpdateConcurrency(int32(amt))
				} else {
					arr.AddCount(base.MetricEvent(k), amt)
				}
				evs = append(evs, model.Ev{T: now, Kind: k, Amt: amt})
				c.Op("+%d t=%d kind=%d amt=%d", dt, now, k, amt)
			}
			if nev == 0 {
				c.Op("+%d t=%d (no event)", dt, now)
			}
			if now%B == 0 {
				boundaryRead = true
			}
			if dt > I {
				gapRead = true
			}

			// the readers of this step, executed in a drawn order
			type reader struct {
				name string
				f    func()
			}
			var rs []reader
			rs = append(rs, reader{"arr.Count", func() {
				for k := 0; k < 5; k++ {
					if got, want := arr.Count(base.MetricEvent(k)), evs.Sum(k, now, B, I); got != want {
						t.Fatalf("t=%d arr.Count(%d)=%d, reference %d", now, k, got, want)
					}
				}
			}})
			rs = append(rs, reader{"arr.Values", func() {
				for _, bw := range arr.Values(now) {
					st := atomic.LoadUint64(&bw.BucketStart)
					if st%B != 0 || !model.In(st, now, B, I) {
						t.Fatalf("t=%d arr.Values returned bucket start %d outside the window ending %d", now, st, model.WinEnd(now, B))
					}
					mb := bw.Value.Load().(*sbase.MetricBucket)
					for k := 0; k < 5; k++ {
						var want int64
						for _, e := range evs {
							if e.Kind == k && e.T >= st && e.T < st+B {
								want += e.Amt
							}
						}
						if got := mb.Get(base.MetricEvent(k)); got != want {
							t.Fatalf("t=%d bucket %d kind %d holds %d, reference %d", now, st, k, got, want)
						}
					}
				}
			}})
			rs = append(rs, reader{"arr.MinRt/MaxConc", func() {
				if got, want := arr.MinRt(), evs.Min(model.Rt, now, B, I, base.DefaultStatisticMaxRt); got != want {
					t.Fatalf("t=%d arr.MinRt=%d, reference %d", now, got, want)
				}
				if got, want := int64(arr.MaxConcurrency()), evs.Max(model.Conc, now, B, I, 0); got != want {
					t.Fatalf("t=%d arr.MaxConcurrency=%d, reference %d", now, got, want)
				}
			}})
			for _, v := range views {
				v := v
				L := uint64(v.vi)
				vb := L / uint64(v.vs)
				rs = append(rs, reader{fmt.Sprintf("view(%d,%d).sums", v.vs, v.vi), func() {
					for k := 0; k < 5; k++ {
						if got, want := v.m.GetSum(base.MetricEvent(k)), evs.Sum(k, now, B, L); got != want {
							t.Fatalf("t=%d view(%d,%d).GetSum(%d)=%d, reference %d", now, v.vs, v.vi, k, got, want)
						}
						if got, want := v.m.GetQPS(base.MetricEvent(k)), float64(evs.Sum(k, now, B, L))/(float64(v.vi)/1000); got != want {
							t.Fatalf("t=%d view(%d,%d).GetQPS(%d)=%v, reference %v", now, v.vs, v.vi, k, got, want)
						}
					}
				}})
				if L+vb <= I && now > vb { // the library treats instant 0 as "no time"; previous-window reads need now-vb > 0
					rs = append(rs, reader{fmt.Sprintf("view(%d,%d).prevQPS", v.vs, v.vi), func() {
						for k := 0; k < 4; k++ {
							want := float64(evs.Sum(k, now-vb, B, L)) / (float64(v.vi) / 1000)
							if got := v.m.GetPreviousQPS(base.MetricEvent(k)); got != want {
								t.Fatalf("t=%d view(%d,%d).GetPreviousQPS(%d)=%v, reference %v", now, v.vs, v.vi, k, got, want)
							}
						}
					}})
				}
				if L+vb <= I && now <= vb {
					// within one view bucket of time zero the "previous window" does not exist: the value of the read is not
					// asserted, but the read is made — it must have no effect on what later reads report
					rs = append(rs, reader{fmt.Sprintf("view(%d,%d).prevQPS(unasserted)", v.vs, v.vi), func() {
						for k := 0; k < 4; k++ {
							_ = v.m.GetPreviousQPS(base.MetricEvent(k))
						}
						earlyPrevRead = true
					}})
				}
				rs = append(rs, reader{fmt.Sprintf("view(%d,%d).rt/conc/max", v.vs, v.vi), func() {
					minRt := evs.Min(model.Rt, now, B, L, base.DefaultStatisticMaxRt)
					if minRt < 1 {
						minRt = 1
					}
					if got := v.m.MinRT(); got != float64(minRt) {
						t.Fatalf("t=%d view(%d,%d).MinRT=%v, reference %d", now, v.vs, v.vi, got, minRt)
					}
					if got, want := int64(v.m.MaxConcurrency()), evs.Max(model.Conc, now, B, L, 0); got != want {
						t.Fatalf("t=%d view(%d,%d).MaxConcurrency=%d, reference %d", now, v.vs, v.vi, got, want)
					}
					for _, k := range []int{model.Pass, model.Complete} {
						if got, want := v.m.GetMaxOfSingleBucket(base.MetricEvent(k)), evs.MaxBucket(k, now, B, L); got != want {
							t.Fatalf("t=%d view(%d,%d).GetMaxOfSingleBucket(%d)=%d, reference %d", now, v.vs, v.vi, k, got, want)
						}
					}
					cpl := evs.Sum(model.Complete, now, B, L)
					avg := v.m.AvgRT()
					if cpl > 0 {
						if want := float64(evs.Sum(model.Rt, now, B, L)) / float64(cpl); avg != want {
							t.Fatalf("t=%d view(%d,%d).AvgRT=%v, reference %v", now, v.vs, v.vi, avg, want)
						}
					} else if !(math.IsNaN(avg) || avg == 0 || math.IsInf(avg, 1)) {
						t.Fatalf("t=%d view(%d,%d).AvgRT=%v with no completion in the window", now, v.vs, v.vi, avg)
					}
				}})
			}
			secReader := reader{"secondMetrics", func() {
				// optional restriction by a predicate on the bucket start
				cut := uint64(math.MaxUint64)
				if rapid.Bool().Draw(t, "secPred") {
					back := uint64(rapid.IntRange(0, int(I)).Draw(t, "secCut"))
					if now > back {
						cut = now - back
					}
				}
				items := views[0].m.SecondMetricsOnCondition(func(ws uint64) bool { return ws <= cut })
				type agg struct{ p, b, cp, e, rt, conc int64 }
				want := map[uint64]*agg{}
				for _, e := range evs {
					if !model.In(e.T, now, B, I) {
						continue
					}
					bs := e.T - e.T%B
					if bs > cut {
						continue
					}
					sec := bs - bs%1000
					a := want[sec]
					if a == nil {
						a = &agg{}
						want[sec] = a
					}
					switch e.Kind {
					case model.Pass:
						a.p += e.Amt
					case model.Block:
						a.b += e.Amt
					case model.Complete:
						a.cp += e.Amt
					case model.Error:
						a.e += e.Amt
					case model.Rt:
						a.rt += e.Amt
					case model.Conc:
						if e.Amt > a.conc {
							a.conc = e.Amt
						}
					}
				}
				seen := map[uint64]bool{}
				for _, it := range items {
					if seen[it.Timestamp] {
						t.Fatalf("t=%d second %d reported twice", now, it.Timestamp)
					}
					seen[it.Timestamp] = true
					a := want[it.Timestamp]
					if a == nil {
						a = &agg{}
					}
					avg := uint64(a.rt)
					if a.cp > 0 {
						avg = uint64(a.rt) / uint64(a.cp)
					}
					if it.PassQps != uint64(a.p) || it.BlockQps != uint64(a.b) || it.CompleteQps != uint64(a.cp) || it.ErrorQps != uint64(a.e) || it.Concurrency != uint32(a.conc) || it.AvgRt != avg {
						t.Fatalf("t=%d per-second item %d = {pass %d block %d complete %d error %d conc %d avgRt %d}, reference from the events inside the window {%d %d %d %d %d %d}",
							now, it.Timestamp, it.PassQps, it.BlockQps, it.CompleteQps, it.ErrorQps, it.Concurrency, it.AvgRt, a.p, a.b, a.cp, a.e, a.conc, avg)
					}
				}
				for sec, a := range want {
					if !seen[sec] && (a.p|a.b|a.cp|a.e|a.rt|a.conc) != 0 {
						t.Fatalf("t=%d second %d has recorded events inside the window but no per-second item", now, sec)
					}
				}
			}}
			rs = append(rs, secReader)

			perm := rapid.Permutation(indices(len(rs))).Draw(t, "readOrder")
			if excludeP21 && rs[perm[0]].name == "secondMetrics" {
				// known finding P21: a non-refreshing per-second read as the very first access of an
				// instant can expose the just-expired bucket; run a refreshing getter first.
				c.Excluded("P21")
				arr.Count(base.MetricEventPass)
			}
			c.ClassIf(rs[perm[0]].name == "secondMetrics", "first-read-is-per-second")
			for _, pi := range perm {
				rs[pi].f()
			}
			c.Count("getter_comparisons", int64(len(rs)))
		}
		c.ClassIf(boundaryRead, "read-on-bucket-boundary")
		c.ClassIf(earlyPrevRead, "previous-window-read-within-one-bucket-of-time-zero(unasserted)")
		if gapRead || boundaryRead || nearZero {
			c.NonTrivial()
		}
	})
}

func indices(n int) []int {
	r := make([]int, n)
	for i := range r {
		r[i] = i
	}
	return r
}

// TestViewConstructible: a window view is constructible iff it tiles the underlying buckets.
func TestViewConstructible(t *testing.T) {
	hx.Check(t, hx.N{Quick: 18000, Thorough: 200000}, func(t *rapid.T, c *hx.Case) {
		n := uint32(rapid.IntRange(1, 24).Draw(t, "n"))
		bl := uint32(rapid.IntRange(1, 1200).Draw(t, "bl"))
		iv := n * bl
		hx.C.SetMs(hx.Epoch)
		arr := sbase.NewBucketLeapArray(n, iv)
		var vs, vi uint32
		switch rapid.IntRange(0, 3).Draw(t, "how") {
		case 0: // arbitrary
			vs = uint32(rapid.IntRange(0, 30).Draw(t, "vs"))
			vi = uint32(rapid.IntRange(0, int(2*iv)).Draw(t, "vi"))
		case 1: // a divisor-ish interval with an arbitrary sample count
			k := uint32(rapid.IntRange(1, int(n)).Draw(t, "k"))
			vi = k * bl
			vs = uint32(rapid.IntRange(0, int(k)+2).Draw(t, "vs"))
		case 2: // tiling by construction
			d := divisors(n)
			k := d[rapid.IntRange(0, len(d)-1).Draw(t, "ki")]
			vi = k * bl
			d2 := divisors(k)
			vs = d2[rapid.IntRange(0, len(d2)-1).Draw(t, "vsi")]
		case 3: // near misses: right interval, bucket not a multiple of the array's
			vi = iv
			vs = uint32(rapid.IntRange(1, int(iv)).Draw(t, "vs"))
		}
		want := tiles(vs, vi, n, iv)
		m, err := sbase.NewSlidingWindowMetric(vs, vi, arr)
		c.Op("array(%d,%d) view(%d,%d) tiles=%v", n, iv, vs, vi, want)
		if want != (err == nil) {
			t.Fatalf("view(%d,%d) over array(%d,%d): tiles=%v but constructor error=%v", vs, vi, n, iv, want, err)
		}
		if err := base.CheckValidityForReuseStatistic(vs, vi, n, iv); want != (err == nil) {
			t.Fatalf("CheckValidityForReuseStatistic(%d,%d,%d,%d): tiles=%v but error=%v", vs, vi, n, iv, want, err)
		}
		if want {
			c.Class("constructible")
			// a constructible view must be usable
			arr.AddCount(base.MetricEventPass, 3)
			if got := m.GetSum(base.MetricEventPass); got != 3 {
				t.Fatalf("fresh view(%d,%d) over array(%d,%d) reads %d after recording 3", vs, vi, n, iv, got)
			}
			c.NonTrivial()
		} else if vs > 0 && vi > 0 && vi%vs == 0 {
			c.Class("well-formed-but-not-tiling")
			c.NonTrivial()
		}
	})
}

func divisors(n uint32) []uint32 {
	var d []uint32
	for i := uint32(1); i <= n; i++ {
		if n%i == 0 {
			d = append(d, i)
		}
	}
	return d
}

// TestNodeGetters: the same reference through stat.ResourceNode under generated valid global
// statistic configurations.
func TestNodeGetters(t *testing.T) {
	hx.Check(t, hx.N{Quick: 12000, Thorough: 200000}, func(t *rapid.T, c *hx.Case) {
		type geo struct{ gn, gi, mn, mi uint32 }
		geos := []geo{{20, 10000, 2, 1000}, {10, 10000, 1, 1000}, {20, 10000, 10, 5000}, {4, 2000, 2, 1000}, {10, 1000, 5, 500}, {6, 3000, 3, 3000}, {1, 1000, 1, 1000}, {20, 10000, 20, 10000}, {5, 10000, 1, 2000}, {10, 20000, 2, 4000}}
		g := geos[rapid.IntRange(0, len(geos)-1).Draw(t, "geo")]
		ent := config.NewDefaultConfig()
		ent.Sentinel.Stat.GlobalStatisticSampleCountTotal = g.gn
		ent.Sentinel.Stat.GlobalStatisticIntervalMsTotal = g.gi
		ent.Sentinel.Stat.MetricStatisticSampleCount = g.mn
		ent.Sentinel.Stat.MetricStatisticIntervalMs = g.mi
		config.ResetGlobalConfig(ent)
		defer config.ResetGlobalConfig(config.NewDefaultConfig())
		B := uint64(g.gi / g.gn)
		I := uint64(g.gi)
		L := uint64(g.mi)
		vb := L / uint64(g.mn)
		now := hx.Epoch + uint64(rapid.IntRange(0, int(3*I)).Draw(t, "t0"))
		hx.C.SetMs(now)
		node := stat.NewResourceNode("c08", base.ResTypeCommon)
		c.Op("node array(%d,%d) metric(%d,%d) t0=%d", g.gn, g.gi, g.mn, g.mi, now)
		var evs model.Events
		conc := int64(0)
		nt := false
		steps := rapid.IntRange(1, 25).Draw(t, "steps")
		for i := 0; i < steps; i++ {
			dt := drawStep(t, c, now, uint32(B), uint32(I))
			now += dt
			hx.C.SetMs(now)
			if dt > I || now%B == 0 {
				nt = true
			}
			nev := rapid.IntRange(0, 3).Draw(t, "nev")
			for j := 0; j < nev; j++ {
				k := rapid.IntRange(0, 6).Draw(t, "kind")
				amt := int64(rapid.IntRange(0, 9).Draw(t, "amt"))
				switch {
				case k <= 4:
					node.AddCount(base.MetricEvent(k), amt)
					evs = append(evs, model.Ev{T: now, Kind: k, Amt: amt})
				case k == 5:
					node.IncreaseConcurrency()
					conc++
					evs = append(evs, model.Ev{T: now, Kind: model.Conc, Amt: conc})
				case k == 6 && conc > 0:
					node.DecreaseConcurrency()
					conc--
				}
				c.Op("+%d t=%d kind=%d amt=%d", dt, now, k, amt)
			}
			if got := int64(node.CurrentConcurrency()); got != conc {
				t.Fatalf("CurrentConcurrency=%d, reference %d", got, conc)
			}
			for k := 0; k < 5; k++ {
				s := evs.Sum(k, now, B, L)
				if got := node.GetSum(base.MetricEvent(k)); got != s {
					t.Fatalf("t=%d node.GetSum(%d)=%d, reference %d", now, k, got, s)
				}
				if got, want := node.GetQPS(base.MetricEvent(k)), float64(s)/(float64(L)/1000); got != want {
					t.Fatalf("t=%d node.GetQPS(%d)=%v, reference %v", now, k, got, want)
				}
				if L+vb <= I {
					if got, want := node.GetPreviousQPS(base.MetricEvent(k)), float64(evs.Sum(k, now-vb, B, L))/(float64(L)/1000); got != want {
						t.Fatalf("t=%d node.GetPreviousQPS(%d)=%v, reference %v", now, k, got, want)
					}
				}
			}
			// a read view derived from the node on request: constructible iff it tiles the node's buckets; its sums, QPS and
			// previous-window QPS follow its OWN geometry (also when its interval equals the node's metric interval)
			{
				vs := uint32(rapid.IntRange(1, 4).Draw(t, "viewSamples"))
				vi := rapid.SampledFrom([]uint32{g.mi, g.mi, uint32(B), 2 * uint32(B), 1000, 2000, uint32(I)}).Draw(t, "viewInterval")
				rs, err := node.GenerateReadStat(vs, vi)
				if tiles(vs, vi, g.gn, g.gi) != (err == nil) {
					t.Fatalf("node.GenerateReadStat(%d,%d) over array(%d,%d): tiles=%v but error=%v", vs, vi, g.gn, g.gi, tiles(vs, vi, g.gn, g.gi), err)
				}
				if err == nil {
					VL, vvb := uint64(vi), uint64(vi/vs)
					for k := 0; k < 4; k++ {
						want := evs.Sum(k, now, B, VL)
						if got := rs.GetSum(base.MetricEvent(k)); got != want {
							t.Fatalf("t=%d derived view(%d,%d).GetSum(%d)=%d, reference %d", now, vs, vi, k, got, want)
						}
						if VL+vvb <= I && now > vvb {
							wantP := float64(evs.Sum(k, now-vvb, B, VL)) / (float64(vi) / 1000)
							if got := rs.GetPreviousQPS(base.MetricEvent(k)); got != wantP {
								t.Fatalf("t=%d derived view(%d,%d).GetPreviousQPS(%d)=%v, reference %v (the previous window ends one VIEW bucket = %d ms ago)", now, vs, vi, k, got, wantP, vvb)
							}
						}
					}
				}
			}
			cpl := evs.Sum(model.Complete, now, B, L)
			wantAvg := float64(0)
			if cpl > 0 {
				wantAvg = float64(evs.Sum(model.Rt, now, B, L) / cpl)
			}
			if got := node.AvgRT(); got != wantAvg {
				t.Fatalf("t=%d node.AvgRT=%v, reference %v", now, got, wantAvg)
			}
			minRt := evs.Min(model.Rt, now, B, L, base.DefaultStatisticMaxRt)
			if minRt < 1 {
				minRt = 1
			}
			if got := node.MinRT(); got != float64(minRt) {
				t.Fatalf("t=%d node.MinRT=%v, reference %d", now, got, minRt)
			}
			if got, want := int64(node.MaxConcurrency()), evs.Max(model.Conc, now, B, L, 0); got != want {
				t.Fatalf("t=%d node.MaxConcurrency=%d, reference %d", now, got, want)
			}
			if msg := secondItems(node.MetricsOnCondition(func(uint64) bool { return true }), evs, now, B, I); msg != "" {
				t.Fatalf("t=%d node.MetricsOnCondition: %s", now, msg)
			}
			wantMaxAvg := float64(evs.MaxBucket(model.Complete, now, B, L)) * float64(g.mn) / float64(g.mi) * 1000
			if got := node.GetMaxAvg(base.MetricEventComplete); got != wantMaxAvg {
				t.Fatalf("t=%d node.GetMaxAvg=%v, reference %v", now, got, wantMaxAvg)
			}
			c.Count("getter_comparisons", 20)
		}
		if nt {
			c.NonTrivial()
		}
	})
}

// secondItems compares per-second metric items with the events recorded inside the array window (bucket length B, array
// interval I), aggregated by the second their bucket starts in. "" = they agree.
func secondItems(items []*base.MetricItem, evs model.Events, now, B, I uint64) string {
	type agg struct{ p, b, cp, e, rt, conc int64 }
	want := map[uint64]*agg{}
	for _, e := range evs {
		if !model.In(e.T, now, B, I) {
			continue
		}
		bs := e.T - e.T%B
		sec := bs - bs%1000
		a := want[sec]
		if a == nil {
			a = &agg{}
			want[sec] = a
		}
		switch e.Kind {
		case model.Pass:
			a.p += e.Amt
		case model.Block:
			a.b += e.Amt
		case model.Complete:
			a.cp += e.Amt
		case model.Error:
			a.e += e.Amt
		case model.Rt:
			a.rt += e.Amt
		case model.Conc:
			if e.Amt > a.conc {
				a.conc = e.Amt
			}
		}
	}
	seen := map[uint64]bool{}
	for _, it := range items {
		if seen[it.Timestamp] {
			return fmt.Sprintf("second %d reported twice", it.Timestamp)
		}
		seen[it.Timestamp] = true
		a := want[it.Timestamp]
		if a == nil {
			a = &agg{}
		}
		avg := uint64(a.rt)
		if a.cp > 0 {
			avg = uint64(a.rt) / uint64(a.cp)
		}
		if it.PassQps != uint64(a.p) || it.BlockQps != uint64(a.b) || it.CompleteQps != uint64(a.cp) || it.ErrorQps != uint64(a.e) || it.Concurrency != uint32(a.conc) || it.AvgRt != avg {
			return fmt.Sprintf("per-second item %d = {pass %d block %d complete %d error %d conc %d avgRt %d}, reference from the events inside the window {%d %d %d %d %d %d}",
				it.Timestamp, it.PassQps, it.BlockQps, it.CompleteQps, it.ErrorQps, it.Concurrency, it.AvgRt, a.p, a.b, a.cp, a.e, a.conc, avg)
		}
	}
	for sec, a := range want {
		if !seen[sec] && (a.p|a.b|a.cp|a.e|a.rt|a.conc) != 0 {
			return fmt.Sprintf("second %d has recorded events inside the window but no per-second item", sec)
		}
	}
	return ""
}

// ---- plain regression cases for repaired defects (no generator involved) ----

// P21: event at a bucket start, first access exactly one array interval later is a per-second read.
func TestP_RegressP21(t *testing.T) {
	hx.Plain(t, func(c *hx.Case) {
		hx.C.SetMs(hx.Epoch)
		arr := sbase.NewBucketLeapArray(4, 4000)
		m, _ := sbase.NewSlidingWindowMetric(4, 4000, arr)
		arr.AddCount(base.MetricEventPass, 7)
		hx.C.SetMs(hx.Epoch + 4000)
		c.Op("array(4,4000) pass 7 at t0; SecondMetricsOnCondition at t0+4000 as first access")
		for _, it := range m.SecondMetricsOnCondition(func(uint64) bool { return true }) {
			if it.PassQps != 0 {
				t.Fatalf("expired bucket surfaced as per-second item %+v", *it)
			}
		}
		c.NonTrivial()
	})
}

// P7: derived view read at an instant smaller than viewInterval-bucketLength.
func TestP_RegressP7(t *testing.T) {
	hx.Plain(t, func(c *hx.Case) {
		hx.C.SetMs(1)
		arr := sbase.NewBucketLeapArray(2, 2000)
		m, _ := sbase.NewSlidingWindowMetric(1, 2000, arr)
		arr.AddCount(base.MetricEventPass, 5)
		c.Op("array(2,2000) view(1,2000) pass 5 at t=1")
		if got := m.GetSum(base.MetricEventPass); got != 5 {
			t.Fatalf("view near time zero reads %d, recorded 5", got)
		}
		c.NonTrivial()
	})
}
