// C20: outlier ejection never removes more than the allowed share of nodes.
package c20

import (
	"errors"
	"fmt"
	"math"
	"math/big"
	"sort"
	"strings"
	"sync/atomic"
	"testing"
	"time"

	sentinel "github.com/alibaba/sentinel-golang/api"
	"github.com/alibaba/sentinel-golang/core/base"
	cb "github.com/alibaba/sentinel-golang/core/circuitbreaker"
	"github.com/alibaba/sentinel-golang/core/flow"
	"github.com/alibaba/sentinel-golang/core/outlier"
	"pgregory.net/rapid"

	"verif/harness/hx"
	"verif/harness/model"
)

func TestMain(m *testing.M) { hx.Main(m, "C20") }

var caseNo int64
var chain = func() *base.SlotChain {
	sc := sentinel.BuildDefaultSlotChain()
	sc.AddRuleCheckSlot(outlier.DefaultSlot)
	sc.AddStatSlot(outlier.DefaultMetricStatSlot)
	return sc
}()

// floorNP: the allowed number of ejected nodes, the larger of the float64 and the exact-decimal floor
// (so that neither rounding convention raises an alarm).
func floorNP(n int, p float64) int {
	f := int(float64(n) * p)
	r := new(big.Rat).SetFloat64(p)
	r.Mul(r, big.NewRat(int64(n), 1))
	q := new(big.Int).Quo(r.Num(), r.Denom())
	e := int(q.Int64())
	// exact decimal of the literal as printed
	var dec big.Rat
	if _, ok := dec.SetString(fmt.Sprint(p)); ok {
		dec.Mul(&dec, big.NewRat(int64(n), 1))
		d := int(new(big.Int).Quo(dec.Num(), dec.Denom()).Int64())
		if d > e {
			e = d
		}
	}
	if e > f {
		return e
	}
	return f
}

func TestEjectionCap(t *testing.T) {
	hx.Check(t, hx.N{Quick: 15000, Thorough: 160000}, func(t *rapid.T, c *hx.Case) {
		res := fmt.Sprintf("svc-%d", atomic.AddInt64(&caseNo, 1)) // never reused: outlier rules are never cleared (see DESIGN, P20)
		hx.Reset(hx.Epoch + uint64(rapid.IntRange(0, 999).Draw(t, "t0")))
		// the EntryContext pool (whose results carry the filter lists) is process-wide: take out whatever earlier cases left
		// there, so that a case depends on its own draws only and a failure shrinks and replays
		for i := 0; i < 64; i++ {
			chain.GetPooledContext()
		}
		pct := rapid.SampledFrom([]float64{0, 0.1, 0.29, 1.0 / 3, 0.5, 0.57, 0.7, 0.9, 1, -1}).Draw(t, "pct")
		if pct < 0 {
			pct = rapid.Float64Range(0, 1).Draw(t, "pctRandom")
		}
		active := rapid.Bool().Draw(t, "activeRecovery")
		st := rapid.SampledFrom([]int{model.ErrorCount, model.ErrorCount, model.ErrorRatio}).Draw(t, "strategy")
		mr := model.BreakerRule{ID: res, Strategy: st, RetryTimeoutMs: uint64(rapid.SampledFrom([]int{10, 100, 1000}).Draw(t, "retry")),
			MinRequestAmount: uint64(rapid.IntRange(0, 2).Draw(t, "min")), StatIntervalMs: 1000, BucketCount: uint64(rapid.SampledFrom([]int{0, 1, 2}).Draw(t, "buckets")),
			ProbeNum: uint64(rapid.SampledFrom([]int{0, 0, 2}).Draw(t, "probeNum"))}
		if st == model.ErrorCount {
			mr.Threshold = float64(rapid.IntRange(1, 3).Draw(t, "thr"))
		} else {
			mr.Threshold = rapid.SampledFrom([]float64{0.3, 0.5, 1}).Draw(t, "ratio")
		}
		rule := &outlier.Rule{Rule: &cb.Rule{Id: res, Resource: res, Strategy: cb.Strategy(st), RetryTimeoutMs: uint32(mr.RetryTimeoutMs), MinRequestAmount: mr.MinRequestAmount,
			StatIntervalMs: 1000, StatSlidingWindowBucketCount: uint32(mr.BucketCount), Threshold: mr.Threshold, ProbeNum: mr.ProbeNum},
			EnableActiveRecovery: active, MaxEjectionPercent: pct, RecoveryIntervalMs: 4000, MaxRecoveryAttempts: 1, RecycleIntervalS: 0,
			RecoveryCheckFunc: func(string) bool { return false }}
		if _, err := outlier.LoadRuleOfResource(res, rule); err != nil {
			t.Fatalf("LoadRuleOfResource: %v", err)
		}
		// a second service with a rule of its own whose nodes never become known (its requests name no callee): whatever
		// the first service's requests reported, nothing may be reported for this one (floor(pct x 0) = 0)
		res2 := res + "-idle"
		rule2 := *rule
		inner2 := *rule.Rule
		inner2.Id, inner2.Resource = res2, res2
		rule2.Rule = &inner2
		if _, err := outlier.LoadRuleOfResource(res2, &rule2); err != nil {
			t.Fatalf("LoadRuleOfResource: %v", err)
		}
		idleChecked := false
		maxNodes := 12
		if hx.Thorough() && rapid.IntRange(0, 9).Draw(t, "many") == 0 {
			maxNodes = 100
		}
		nn := rapid.IntRange(1, maxNodes).Draw(t, "nodes")
		c.Op("pct=%v active=%v strategy=%d thr=%v retry=%d min=%d buckets=%d probeNum=%d nodes=%d", pct, active, st, mr.Threshold, mr.RetryTimeoutMs, mr.MinRequestAmount, mr.BucketCount, mr.ProbeNum, nn)
		nodes := map[string]*model.Breaker{}
		addrs := make([]string, nn)
		for i := range addrs {
			addrs[i] = fmt.Sprintf("10.0.%d.%d:80", i/250, i%250)
		}
		capped, reloads, queued := false, 0, false
		if rapid.IntRange(0, 3).Draw(t, "pacingFlowRule") == 0 {
			// another module on the same service: a pacing rule that queues requests (never rejects: the limit is an hour)
			if _, err := flow.LoadRules([]*flow.Rule{{Resource: res, ControlBehavior: flow.Throttling, Threshold: float64(rapid.SampledFrom([]int{1, 2, 10, 100}).Draw(t, "paceT")), MaxQueueingTimeMs: 3600000}}); err != nil {
				t.Fatalf("flow rule: %v", err)
			}
			hx.C.Advance = true
			defer func() { hx.C.Advance = false }()
			c.Class("pacing-flow-rule-on-the-service")
		}
		defer func() { c.ClassIf(queued, "request-queued-before-the-node-breakers-were-consulted") }()
		n := rapid.IntRange(1, 40).Draw(t, "n")
		for i := 0; i < n; i++ {
			hx.C.AddMs(uint64(rapid.SampledFrom([]int{0, 1, 5, 10, 100, 500, 1000}).Draw(t, "dt")))
			if rapid.IntRange(0, 11).Draw(t, "reload") == 0 {
				// the resource's rule is reloaded with another retry timeout and threshold (statistic parameters unchanged): every
				// node's breaker is replaced by a closed one for the new rule that keeps the node's window; the latest rule gates
				reloads++
				prevRetry, prevThr := mr.RetryTimeoutMs, mr.Threshold
				mr.RetryTimeoutMs = uint64(rapid.SampledFrom([]int{10, 100, 1000, 50}).Draw(t, "retry2"))
				if st == model.ErrorCount {
					mr.Threshold = float64(rapid.IntRange(1, 3).Draw(t, "thr2"))
				} else {
					mr.Threshold = rapid.SampledFrom([]float64{0.3, 0.5, 1}).Draw(t, "ratio2")
				}
				r2 := *rule
				inner := *rule.Rule
				inner.RetryTimeoutMs, inner.Threshold = uint32(mr.RetryTimeoutMs), mr.Threshold
				r2.Rule = &inner
				changed, err := outlier.LoadRuleOfResource(res, &r2)
				if err != nil {
					t.Fatalf("reload: %v", err)
				}
				if changed && (mr.RetryTimeoutMs != prevRetry || mr.Threshold != prevThr) { // an equal circuit rule keeps every node's breaker as it is
					for a, m := range nodes {
						nodes[a] = m.Rebuilt(mr)
					}
				}
				rule = &r2
				c.Op("reload #%d: retry=%d threshold=%v (changed=%v)", reloads, mr.RetryTimeoutMs, mr.Threshold, changed)
			}
			called := hx.C.Ms()
			e, blk := sentinel.Entry(res, sentinel.WithSlotChain(chain))
			if blk != nil {
				t.Fatalf("outlier slot blocked the request: %v", blk)
			}
			// (a pacing flow rule on the service may have made the single caller sleep inside Entry before the node breakers
			// were consulted: they see the instant the wait is over; the response time runs from the Entry call)
			now := hx.C.Ms()
			queued = queued || now != called
			filter := append([]string(nil), e.Context().FilterNodes()...)
			halfs := append([]string(nil), e.Context().HalfOpenNodes()...)
			// reference: every Entry consults every known node's breaker
			var rejecting, expHalf []string
			for a, m := range nodes {
				pass, _ := m.TryPass(now)
				if !pass {
					rejecting = append(rejecting, a)
				} else if m.State == model.HalfOpen && !active {
					expHalf = append(expHalf, a)
				}
			}
			rejSet := map[string]bool{}
			for _, a := range rejecting {
				rejSet[a] = true
			}
			seen := map[string]bool{}
			for _, a := range filter {
				if !rejSet[a] {
					t.Fatalf("t=%d node %s is reported for filtering but its breaker does not reject traffic (rejecting: %v)", now, a, rejecting)
				}
				if seen[a] {
					t.Fatalf("node %s reported twice", a)
				}
				seen[a] = true
			}
			bound := floorNP(len(nodes), pct)
			if len(filter) > bound {
				t.Fatalf("t=%d %d nodes reported for filtering, allowed floor(%d known nodes x %v) = %d", now, len(filter), len(nodes), pct, bound)
			}
			if len(rejecting) > bound && len(rejecting) >= 2 {
				capped = true
			}
			sort.Strings(halfs)
			sort.Strings(expHalf)
			if fmt.Sprint(halfs) != fmt.Sprint(expHalf) {
				t.Fatalf("t=%d half-open nodes reported %v, nodes being passively probed per reference %v (active recovery=%v)", now, halfs, expHalf, active)
			}
			callee := addrs[rapid.IntRange(0, nn-1).Draw(t, "callee")]
			fail := rapid.IntRange(0, 2).Draw(t, "fail") > 0
			sentinel.TraceCallee(e, callee)
			hx.C.AddMs(uint64(rapid.SampledFrom([]int{0, 1, 3}).Draw(t, "rt")))
			now2 := hx.C.Ms()
			if fail {
				e.Exit(base.WithError(errors.New("x")))
			} else {
				e.Exit()
			}
			c.Op("t=%d filter=%d/%d rejecting=%d half=%v -> call %s fail=%v", now, len(filter), len(nodes), len(rejecting), halfs, callee, fail)
			m := nodes[callee]
			if m == nil {
				m = model.NewBreaker(mr, nil)
				nodes[callee] = m
			}
			m.Complete(now2, now2-called, fail)
			if rapid.IntRange(0, 3).Draw(t, "idleService") == 0 {
				e2, blk2 := sentinel.Entry(res2, sentinel.WithSlotChain(chain))
				if blk2 != nil {
					t.Fatalf("outlier slot blocked the request: %v", blk2)
				}
				f2, h2 := append([]string(nil), e2.Context().FilterNodes()...), append([]string(nil), e2.Context().HalfOpenNodes()...)
				e2.Exit()
				if len(f2) != 0 || len(h2) != 0 {
					t.Fatalf("t=%d request on service %s, none of whose nodes is known: reported filter nodes %v / half-open nodes %v (nodes of another service, left over in a recycled context?)", now2, res2, f2, h2)
				}
				idleChecked = idleChecked || len(filter) > 0
			}
		}
		known := outlier.VerifNodeAddresses(res)
		if len(known) != len(nodes) {
			t.Fatalf("known nodes %v, reference %d", known, len(nodes))
		}
		c.ClassIf(capped, "cap-binds(>=2 rejecting > floor)")
		c.ClassIf(active, "active-recovery")
		c.ClassIf(reloads > 0, "rule-reloaded-with-other-breaker-parameters-mid-history")
		c.ClassIf(idleChecked, "idle-service-asked-right-after-a-report-with-ejections")
		if capped {
			c.NonTrivial()
		}
		_ = math.Floor
	})
}

// TestRecycleKeepsRecoveredNode (thorough only; real timers): a node that failed, then completed a request
// successfully, is still known after the recycle interval.
func TestRecycleKeepsRecoveredNode(t *testing.T) {
	hx.Check(t, hx.N{Quick: 1, Thorough: 2}, func(t *rapid.T, c *hx.Case) {
		nn := rapid.IntRange(2, 6).Draw(t, "nodes")
		recovers := make([]bool, nn)
		for i := range recovers {
			recovers[i] = rapid.Bool().Draw(t, "recovers")
		}
		recovers[rapid.IntRange(0, nn-1).Draw(t, "oneRecoversForSure")] = true
		for _, reloaded := range []string{"no", "changed", "cleared-and-loaded-again", "no, active recovery whose probes fail"} { // every variant in every case
			recycleOnce(t, c, nn, recovers, reloaded)
		}
		capAfterRecycle(t, c)
		c.NonTrivial()
	})
}

func recycleOnce(t *rapid.T, c *hx.Case, nn int, recovers []bool, reloaded string) {
	{
		res := fmt.Sprintf("rec-%d", atomic.AddInt64(&caseNo, 1))
		hx.Reset(hx.Epoch)
		rule := &outlier.Rule{Rule: &cb.Rule{Id: res, Resource: res, Strategy: cb.ErrorCount, RetryTimeoutMs: 10, MinRequestAmount: 1, StatIntervalMs: 1000, Threshold: 1},
			EnableActiveRecovery: false, MaxEjectionPercent: 1, RecoveryIntervalMs: 4000, MaxRecoveryAttempts: 1, RecycleIntervalS: 1}
		var probesOK int32 // active probes fail until the variant is over, then succeed so the retry tasks end
		if strings.HasPrefix(reloaded, "no, active") {
			rule.EnableActiveRecovery, rule.RecoveryIntervalMs, rule.MaxRecoveryAttempts = true, 150, 2
			rule.RecoveryCheckFunc = func(string) bool { return atomic.LoadInt32(&probesOK) == 1 }
			defer func() { atomic.StoreInt32(&probesOK, 1); time.Sleep(400 * time.Millisecond) }()
		}
		if _, err := outlier.LoadRuleOfResource(res, rule); err != nil {
			t.Fatal(err)
		}
		recovered := map[string]bool{}
		call := func(addr string, fail bool) {
			e, _ := sentinel.Entry(res, sentinel.WithSlotChain(chain))
			sentinel.TraceCallee(e, addr)
			if fail {
				e.Exit(base.WithError(errors.New("x")))
			} else {
				e.Exit()
			}
		}
		for i := 0; i < nn; i++ {
			call(fmt.Sprintf("n%d", i), true) // every node fails once: breaker opens
		}
		hx.C.AddMs(5)
		call("n0", true) // this request sees the open breakers: outliers are handed to the recycler
		time.Sleep(100 * time.Millisecond)
		switch reloaded {
		case "changed": // the rule is reloaded with another breaker threshold while the ejected nodes wait in the recycler
			r2 := *rule
			inner := *rule.Rule
			inner.Threshold = 2
			r2.Rule = &inner
			if _, err := outlier.LoadRuleOfResource(res, &r2); err != nil {
				t.Fatal(err)
			}
		case "cleared-and-loaded-again": // the resource's rule is cleared and the same rule is loaded again (passive recovery: no retry tasks are queued)
			if err := outlier.ClearRuleOfResource(res); err != nil {
				t.Fatal(err)
			}
			r2 := *rule
			inner := *rule.Rule
			r2.Rule = &inner
			if _, err := outlier.LoadRuleOfResource(res, &r2); err != nil {
				t.Fatal(err)
			}
		}
		hx.C.AddMs(20) // retry timeout elapsed: probes allowed
		for i := 0; i < nn; i++ {
			if recovers[i] {
				addr := fmt.Sprintf("n%d", i)
				call(addr, false)
				recovered[addr] = true
			}
		}
		c.Op("nodes=%d rule reloaded meanwhile=%v recovered=%v", nn, reloaded, recovered)
		time.Sleep(1500 * time.Millisecond)
		known := map[string]bool{}
		for _, a := range outlier.VerifNodeAddresses(res) {
			known[a] = true
		}
		for a := range recovered {
			if !known[a] {
				t.Fatalf("rule reloaded meanwhile=%s: node %s completed a request successfully but was recycled (known nodes %v)", reloaded, a, known)
			}
		}
	}
}

// TestWholeListReload: two services with disjoint node sets, rules loaded and reloaded through the whole-list loader
// (outlier.LoadRules) after the nodes have become known. Each service's cap is computed from its own known nodes only:
// after every node of service A has failed, a request on A is handed at most floor(pct x |A's nodes|) nodes, all of them
// A's, and the nodes known for a service are exactly those its own requests named. Passive recovery only, so that no retry
// task outlives a case (see DESIGN, P20); runs in a process of its own like every test of this package.
func TestWholeListReload(t *testing.T) {
	hx.Check(t, hx.N{Quick: 1500, Thorough: 15000}, func(t *rapid.T, c *hx.Case) {
		no := atomic.AddInt64(&caseNo, 1)
		hx.Reset(hx.Epoch + uint64(rapid.IntRange(0, 999).Draw(t, "t0")))
		for i := 0; i < 64; i++ {
			chain.GetPooledContext()
		}
		svc := []string{fmt.Sprintf("wl-%d-a", no), fmt.Sprintf("wl-%d-b", no)}
		pct := rapid.SampledFrom([]float64{0.1, 0.29, 1.0 / 3, 0.5, 0.57, 0.7, 0.9, 1}).Draw(t, "pct")
		size := []int{rapid.IntRange(1, 8).Draw(t, "nodesA"), rapid.IntRange(1, 8).Draw(t, "nodesB")}
		mk := func(i int, retry uint32) *outlier.Rule {
			return &outlier.Rule{Rule: &cb.Rule{Id: svc[i], Resource: svc[i], Strategy: cb.ErrorCount, RetryTimeoutMs: retry, MinRequestAmount: 1, StatIntervalMs: 1000, Threshold: 1},
				MaxEjectionPercent: pct, RecoveryIntervalMs: 4000, MaxRecoveryAttempts: 1, RecycleIntervalS: 0}
		}
		if _, err := outlier.LoadRules([]*outlier.Rule{mk(0, 1000), mk(1, 1000)}); err != nil {
			t.Fatalf("LoadRules: %v", err)
		}
		addr := func(i, k int) string { return fmt.Sprintf("10.%d.0.%d:80", 1+i, k) }
		call := func(i, k int, fail bool) (filter []string) {
			e, blk := sentinel.Entry(svc[i], sentinel.WithSlotChain(chain))
			if blk != nil {
				t.Fatalf("outlier slot blocked the request: %v", blk)
			}
			filter = append(filter, e.Context().FilterNodes()...)
			sentinel.TraceCallee(e, addr(i, k))
			if fail {
				e.Exit(base.WithError(errors.New("x")))
			} else {
				e.Exit()
			}
			return filter
		}
		for i := range svc { // every node becomes known through a successful request
			for k := 0; k < size[i]; k++ {
				call(i, k, false)
			}
		}
		reloads := rapid.IntRange(0, 2).Draw(t, "wholeListReloads")
		for r := 0; r < reloads; r++ { // a changed list: service B's retry timeout differs (and the order of the list)
			l := []*outlier.Rule{mk(0, 1000), mk(1, uint32(2000+r))}
			if rapid.Bool().Draw(t, "swapped") {
				l[0], l[1] = l[1], l[0]
			}
			if _, err := outlier.LoadRules(l); err != nil {
				t.Fatalf("LoadRules (reload): %v", err)
			}
		}
		for i := range svc {
			known := outlier.VerifNodeAddresses(svc[i])
			sort.Strings(known)
			var want []string
			for k := 0; k < size[i]; k++ {
				want = append(want, addr(i, k))
			}
			sort.Strings(want)
			if fmt.Sprint(known) != fmt.Sprint(want) {
				t.Fatalf("after %d whole-list reload(s) the nodes known for service %s are %v, its own requests named %v", reloads, svc[i], known, want)
			}
		}
		hx.C.AddMs(5)
		for k := 0; k < size[0]; k++ { // every node of A fails once: its breaker opens
			call(0, k, true)
		}
		hx.C.AddMs(5)
		filter := call(0, 0, true)
		bound := floorNP(size[0], pct)
		c.Op("pct=%v nodes A=%d B=%d whole-list reloads=%d: %d of A's nodes reported, allowed %d", pct, size[0], size[1], reloads, len(filter), bound)
		if len(filter) > bound {
			t.Fatalf("all %d nodes of service %s failed; %d nodes reported for filtering, allowed floor(%d x %v) = %d (the other service has %d nodes, %d whole-list reloads)", size[0], svc[0], len(filter), size[0], pct, bound, size[1], reloads)
		}
		for _, a := range filter {
			if !strings.HasPrefix(a, "10.1.") {
				t.Fatalf("node %s of another service reported for service %s", a, svc[0])
			}
		}
		if reloads > 0 && bound < size[0] {
			c.NonTrivial()
			c.Class("whole-list-reload-after-nodes-became-known")
		}
	})
}


// capAfterRecycle: the cap follows the number of known nodes down when a node is recycled. Three of four nodes are ejected
// (cap floor(0.5 x 4) = 2 of them reported); two of the three complete a request successfully while their breakers stay
// open (retry timeout far away), the third is recycled after the recycle interval: three nodes are known, two of them
// still reject, and at most floor(0.5 x 3) = 1 may be reported.
func capAfterRecycle(t *rapid.T, c *hx.Case) {
	res := fmt.Sprintf("cap-%d", atomic.AddInt64(&caseNo, 1))
	hx.Reset(hx.Epoch)
	rule := &outlier.Rule{Rule: &cb.Rule{Id: res, Resource: res, Strategy: cb.ErrorCount, RetryTimeoutMs: 3600000, MinRequestAmount: 1, StatIntervalMs: 1000, Threshold: 1},
		EnableActiveRecovery: false, MaxEjectionPercent: 0.5, RecoveryIntervalMs: 4000, MaxRecoveryAttempts: 1, RecycleIntervalS: 1}
	if _, err := outlier.LoadRuleOfResource(res, rule); err != nil {
		t.Fatal(err)
	}
	call := func(addr string, fail bool) []string {
		e, _ := sentinel.Entry(res, sentinel.WithSlotChain(chain))
		f := append([]string(nil), e.Context().FilterNodes()...)
		sentinel.TraceCallee(e, addr)
		if fail {
			e.Exit(base.WithError(errors.New("x")))
		} else {
			e.Exit()
		}
		return f
	}
	call("healthy", false)
	for _, a := range []string{"a", "b", "c"} {
		call(a, true) // opens
	}
	hx.C.AddMs(5)
	if f := call("healthy", false); len(f) > 2 {
		t.Fatalf("4 known nodes, 3 rejecting: %d reported, allowed floor(0.5 x 4) = 2", len(f))
	}
	time.Sleep(100 * time.Millisecond) // the reported nodes reach the recycler
	call("b", false)
	call("c", false) // b and c complete a request successfully (their breakers stay open): they are not recycled
	time.Sleep(1500 * time.Millisecond)
	known := outlier.VerifNodeAddresses(res)
	f := call("healthy", false)
	bound := floorNP(len(known), 0.5)
	c.Op("cap after recycle: known nodes %v, reported %v, allowed %d", known, f, bound)
	if len(f) > bound {
		t.Fatalf("after the recycle interval %d nodes are known (%v); %d nodes are reported for filtering (%v), allowed floor(0.5 x %d) = %d", len(known), known, len(f), f, len(known), bound)
	}
}
