// C18: datasource payloads are applied faithfully or rejected, never half-applied.
package c18

import (
	"bytes"
	"encoding/json"
	"errors"
	"fmt"
	"os"
	"path/filepath"
	"reflect"
	"sort"
	"strconv"
	"strings"
	"testing"
	"time"

	sentinel "github.com/alibaba/sentinel-golang/api"
	"github.com/alibaba/sentinel-golang/core/base"
	cb "github.com/alibaba/sentinel-golang/core/circuitbreaker"
	"github.com/alibaba/sentinel-golang/core/flow"
	"github.com/alibaba/sentinel-golang/core/hotspot"
	"github.com/alibaba/sentinel-golang/core/isolation"
	"github.com/alibaba/sentinel-golang/core/system"
	"github.com/alibaba/sentinel-golang/ext/datasource"
	"github.com/alibaba/sentinel-golang/ext/datasource/file"
	"github.com/alibaba/sentinel-golang/util"
	"pgregory.net/rapid"

	"verif/harness/hx"
	"verif/harness/model"
)

func TestMain(m *testing.M) { hx.Main(m, "C18") }

// module: uniform view of one handler + parser + rule manager.
type module struct {
	name       string
	handler    func() datasource.PropertyHandler
	parse      func([]byte) (interface{}, error)
	gen        func(t *rapid.T) any        // a rule object (valid or invalid), never nil
	encode     func(list []any) []byte     // wire format; nil elements become JSON null
	key        func(any) string            // modulo ID
	valid      func(any) bool              // module's validity check and supported
	current    func() []string             // sorted keys of the rules in force (module getters)
	decoded    func(interface{}) []any     // parser result -> rule objects (nil elements kept)
	fromJSON   func([]byte) ([]any, error) // independent encoding/json decode of the wire format
	wrongTyped string                      // a payload whose field types are wrong
}

func sortedKeys(m *module, rs []any) []string {
	var out []string
	for _, r := range rs {
		if r == nil || reflect.ValueOf(r).IsNil() {
			continue
		}
		if m.valid(r) {
			out = append(out, m.key(r))
		}
	}
	sort.Strings(out)
	return out
}

func marshalList(list []any) []byte {
	b, err := json.Marshal(list)
	if err != nil {
		panic(err)
	}
	return b
}

func flowMod() *module {
	m := &module{name: "flow", handler: func() datasource.PropertyHandler {
		return datasource.NewFlowRulesHandler(datasource.FlowRuleJsonArrayParser)
	},
		parse: datasource.FlowRuleJsonArrayParser,
		gen: func(t *rapid.T) any {
			r := &flow.Rule{ID: fmt.Sprint(rapid.IntRange(0, 9).Draw(t, "id")), Resource: rapid.SampledFrom([]string{"a", "b", "c", ""}).Draw(t, "res"),
				Threshold: rapid.SampledFrom([]float64{-1, 0, 1.5, 10, 1e9}).Draw(t, "thr"), ControlBehavior: flow.ControlBehavior(rapid.SampledFrom([]int{0, 0, 1, 7}).Draw(t, "cb")),
				TokenCalculateStrategy: flow.TokenCalculateStrategy(rapid.SampledFrom([]int{0, 0, 1}).Draw(t, "tcs")), MaxQueueingTimeMs: uint32(rapid.IntRange(0, 100).Draw(t, "q")),
				StatIntervalInMs: uint32(rapid.SampledFrom([]int{0, 1000, 3000, 2000, 2500, 5000, 10000}).Draw(t, "iv")), WarmUpPeriodSec: uint32(rapid.IntRange(0, 3).Draw(t, "wp")), WarmUpColdFactor: uint32(rapid.SampledFrom([]int{0, 1, 3}).Draw(t, "wc"))}
			if rapid.IntRange(0, 4).Draw(t, "assoc") == 0 {
				r.RelationStrategy, r.RefResource = flow.AssociatedResource, rapid.SampledFrom([]string{"b", ""}).Draw(t, "ref")
			}
			return r
		},
		encode: marshalList,
		key: func(r any) string {
			x := *r.(*flow.Rule)
			x.ID = ""
			return fmt.Sprintf("%+v", x)
		},
		valid: func(r any) bool {
			x := r.(*flow.Rule)
			return model.ValidFlow(x) && x.ControlBehavior >= 0 && x.ControlBehavior <= flow.Throttling && x.TokenCalculateStrategy <= flow.MemoryAdaptive
		},
		current: func() []string {
			var out []string
			for _, r := range flow.GetRules() {
				x := r
				x.ID = ""
				out = append(out, fmt.Sprintf("%+v", x))
			}
			sort.Strings(out)
			return out
		},
		decoded: func(v interface{}) []any {
			var out []any
			for _, r := range v.([]*flow.Rule) {
				out = append(out, r)
			}
			return out
		},
		fromJSON: func(b []byte) ([]any, error) {
			var rs []*flow.Rule
			if err := json.Unmarshal(b, &rs); err != nil {
				return nil, err
			}
			var out []any
			for _, r := range rs {
				out = append(out, r)
			}
			return out, nil
		},
		wrongTyped: `[{"resource":"a","threshold":"ten"}]`,
	}
	return m
}

func isolationMod() *module {
	return &module{name: "isolation", handler: func() datasource.PropertyHandler {
		return datasource.NewIsolationRulesHandler(datasource.IsolationRuleJsonArrayParser)
	},
		parse: datasource.IsolationRuleJsonArrayParser,
		gen: func(t *rapid.T) any {
			return &isolation.Rule{ID: fmt.Sprint(rapid.IntRange(0, 9).Draw(t, "id")), Resource: rapid.SampledFrom([]string{"a", "b", ""}).Draw(t, "res"),
				MetricType: isolation.MetricType(rapid.SampledFrom([]int{0, 0, 0, 2}).Draw(t, "mt")), Threshold: uint32(rapid.SampledFrom([]int{0, 1, 5, 4294967295}).Draw(t, "thr"))}
		},
		encode: marshalList,
		key: func(r any) string {
			x := *r.(*isolation.Rule)
			x.ID = ""
			return fmt.Sprintf("%+v", x)
		},
		valid: func(r any) bool { return model.ValidIsolation(r.(*isolation.Rule)) },
		current: func() []string {
			var out []string
			for _, r := range isolation.GetRules() {
				x := r
				x.ID = ""
				out = append(out, fmt.Sprintf("%+v", x))
			}
			sort.Strings(out)
			return out
		},
		decoded: func(v interface{}) []any {
			var out []any
			for _, r := range v.([]*isolation.Rule) {
				out = append(out, r)
			}
			return out
		},
		fromJSON: func(b []byte) ([]any, error) {
			var rs []*isolation.Rule
			if err := json.Unmarshal(b, &rs); err != nil {
				return nil, err
			}
			var out []any
			for _, r := range rs {
				out = append(out, r)
			}
			return out, nil
		},
		wrongTyped: `[{"resource":"a","threshold":-1}]`,
	}
}

func systemMod() *module {
	return &module{name: "system", handler: func() datasource.PropertyHandler {
		return datasource.NewSystemRulesHandler(datasource.SystemRuleJsonArrayParser)
	},
		parse: datasource.SystemRuleJsonArrayParser,
		gen: func(t *rapid.T) any {
			return &system.Rule{ID: fmt.Sprint(rapid.IntRange(0, 9).Draw(t, "id")), MetricType: system.MetricType(rapid.IntRange(0, 5).Draw(t, "metric")),
				TriggerCount: rapid.SampledFrom([]float64{-1, 0, 0.5, 2, 1e6}).Draw(t, "trig"), Strategy: system.AdaptiveStrategy(rapid.SampledFrom([]int{-1, 1}).Draw(t, "strategy"))}
		},
		encode: marshalList,
		key: func(r any) string {
			x := *r.(*system.Rule)
			x.ID = ""
			return fmt.Sprintf("%+v", x)
		},
		valid: func(r any) bool { return model.ValidSystem(r.(*system.Rule)) },
		current: func() []string {
			var out []string
			for _, r := range system.GetRules() {
				x := r
				x.ID = ""
				out = append(out, fmt.Sprintf("%+v", x))
			}
			sort.Strings(out)
			return out
		},
		decoded: func(v interface{}) []any {
			var out []any
			for _, r := range v.([]*system.Rule) {
				out = append(out, r)
			}
			return out
		},
		fromJSON: func(b []byte) ([]any, error) {
			var rs []*system.Rule
			if err := json.Unmarshal(b, &rs); err != nil {
				return nil, err
			}
			var out []any
			for _, r := range rs {
				out = append(out, r)
			}
			return out, nil
		},
		wrongTyped: `[{"metricType":"load","triggerCount":1}]`,
	}
}

func cbKey(r *cb.Rule) string {
	x := *r
	x.Id = ""
	if x.Strategy != cb.SlowRequestRatio {
		x.MaxAllowedRtMs = 0
	}
	return fmt.Sprintf("%+v", x)
}

func cbMod() *module {
	return &module{name: "circuitbreaker", handler: func() datasource.PropertyHandler {
		return datasource.NewCircuitBreakerRulesHandler(datasource.CircuitBreakerRuleJsonArrayParser)
	},
		parse: datasource.CircuitBreakerRuleJsonArrayParser,
		gen: func(t *rapid.T) any {
			r := &cb.Rule{Id: fmt.Sprint(rapid.IntRange(0, 9).Draw(t, "id")), Resource: rapid.SampledFrom([]string{"a", "b", ""}).Draw(t, "res"), Strategy: cb.Strategy(rapid.IntRange(0, 2).Draw(t, "strategy")),
				RetryTimeoutMs: uint32(rapid.SampledFrom([]int{0, 10, 3000}).Draw(t, "retry")), MinRequestAmount: uint64(rapid.IntRange(0, 3).Draw(t, "min")), StatIntervalMs: uint32(rapid.SampledFrom([]int{0, 1000, 10000}).Draw(t, "interval")),
				StatSlidingWindowBucketCount: uint32(rapid.SampledFrom([]int{0, 1, 10, 7}).Draw(t, "buckets")), MaxAllowedRtMs: uint64(rapid.SampledFrom([]int{0, 50}).Draw(t, "maxRt")),
				Threshold: rapid.SampledFrom([]float64{-0.1, 0, 0.5, 1, 3}).Draw(t, "thr"), ProbeNum: uint64(rapid.IntRange(0, 2).Draw(t, "probe"))}
			return r
		},
		encode: marshalList,
		key:    func(r any) string { return cbKey(r.(*cb.Rule)) },
		valid:  func(r any) bool { return model.ValidCb(r.(*cb.Rule)) },
		current: func() []string {
			var out []string
			for _, r := range cb.GetRules() {
				x := r
				out = append(out, cbKey(&x))
			}
			sort.Strings(out)
			return out
		},
		decoded: func(v interface{}) []any {
			var out []any
			for _, r := range v.([]*cb.Rule) {
				out = append(out, r)
			}
			return out
		},
		fromJSON: func(b []byte) ([]any, error) {
			var rs []*cb.Rule
			if err := json.Unmarshal(b, &rs); err != nil {
				return nil, err
			}
			var out []any
			for _, r := range rs {
				out = append(out, r)
			}
			return out, nil
		},
		wrongTyped: `[{"resource":"a","strategy":"errorCount"}]`,
	}
}

// hotspot: the wire format carries specific items as {valKind, valStr, threshold}.
func hotKey(r *hotspot.Rule) string {
	x := *r
	x.ID = ""
	if x.ControlBehavior == hotspot.Reject {
		x.MaxQueueingTimeMs = 0
	} else if x.ControlBehavior == hotspot.Throttling {
		x.BurstCount = 0
	}
	var items []string
	for k, v := range x.SpecificItems {
		items = append(items, fmt.Sprintf("%T:%v=%d", k, k, v))
	}
	sort.Strings(items)
	x.SpecificItems = nil
	return fmt.Sprintf("%+v %v", x, items)
}

func wireOf(r *hotspot.Rule) *datasource.HotspotRule {
	w := &datasource.HotspotRule{ID: r.ID, Resource: r.Resource, MetricType: r.MetricType, ControlBehavior: r.ControlBehavior, ParamIndex: r.ParamIndex, Threshold: r.Threshold,
		MaxQueueingTimeMs: r.MaxQueueingTimeMs, BurstCount: r.BurstCount, DurationInSec: r.DurationInSec, ParamsMaxCapacity: r.ParamsMaxCapacity}
	var keys []string
	byKey := map[string]datasource.SpecificValue{}
	for k, v := range r.SpecificItems {
		var sv datasource.SpecificValue
		switch x := k.(type) {
		case int:
			sv = datasource.SpecificValue{ValKind: datasource.KindInt, ValStr: strconv.Itoa(x), Threshold: v}
		case string:
			sv = datasource.SpecificValue{ValKind: datasource.KindString, ValStr: x, Threshold: v}
		case bool:
			sv = datasource.SpecificValue{ValKind: datasource.KindBool, ValStr: strconv.FormatBool(x), Threshold: v}
		case float64:
			sv = datasource.SpecificValue{ValKind: datasource.KindFloat64, ValStr: strconv.FormatFloat(x, 'f', -1, 64), Threshold: v}
		}
		ks := fmt.Sprintf("%T%v", k, k)
		keys = append(keys, ks)
		byKey[ks] = sv
	}
	sort.Strings(keys)
	for _, k := range keys {
		w.SpecificItems = append(w.SpecificItems, byKey[k])
	}
	return w
}

func specificFromWire(src []datasource.SpecificValue) map[interface{}]int64 {
	out := map[interface{}]int64{}
	for _, it := range src {
		switch it.ValKind {
		case datasource.KindInt:
			if v, err := strconv.Atoi(it.ValStr); err == nil {
				out[v] = it.Threshold
			}
		case datasource.KindString:
			out[it.ValStr] = it.Threshold
		case datasource.KindBool:
			if v, err := strconv.ParseBool(it.ValStr); err == nil {
				out[v] = it.Threshold
			}
		case datasource.KindFloat64:
			if v, err := strconv.ParseFloat(it.ValStr, 64); err == nil {
				if v2, err := strconv.ParseFloat(fmt.Sprintf("%.5f", v), 64); err == nil {
					out[v2] = it.Threshold
				}
			}
		}
	}
	return out
}

func hotspotMod() *module {
	return &module{name: "hotspot", handler: func() datasource.PropertyHandler {
		return datasource.NewHotSpotParamRulesHandler(datasource.HotSpotParamRuleJsonArrayParser)
	},
		parse: datasource.HotSpotParamRuleJsonArrayParser,
		gen: func(t *rapid.T) any {
			r := &hotspot.Rule{ID: fmt.Sprint(rapid.IntRange(0, 9).Draw(t, "id")), Resource: rapid.SampledFrom([]string{"a", "b", ""}).Draw(t, "res"), MetricType: hotspot.MetricType(rapid.SampledFrom([]int{0, 1, 1}).Draw(t, "mt")),
				ControlBehavior: hotspot.ControlBehavior(rapid.SampledFrom([]int{0, 0, 1}).Draw(t, "cb")), ParamIndex: rapid.SampledFrom([]int{0, 1, -1}).Draw(t, "idx"), Threshold: int64(rapid.SampledFrom([]int{-1, 0, 2, 100}).Draw(t, "thr")),
				MaxQueueingTimeMs: int64(rapid.SampledFrom([]int{0, 50}).Draw(t, "q")), BurstCount: int64(rapid.SampledFrom([]int{-1, 0, 3}).Draw(t, "burst")), DurationInSec: int64(rapid.IntRange(0, 2).Draw(t, "dur")),
				ParamsMaxCapacity: int64(rapid.SampledFrom([]int{0, 100}).Draw(t, "cap")), SpecificItems: map[interface{}]int64{}}
			n := rapid.IntRange(0, 3).Draw(t, "nitems")
			for i := 0; i < n; i++ {
				var k interface{}
				switch rapid.IntRange(0, 3).Draw(t, "kind") {
				case 0:
					k = rapid.IntRange(-5, 1000).Draw(t, "ik")
					if rapid.IntRange(0, 3).Draw(t, "wideInt") == 0 { // 64-bit identifiers are ordinary hot-parameter values
						k = rapid.SampledFrom([]int{10000000000, -2147483649, 2147483648, 2147483647, -2147483648, 9223372036854775807, -9223372036854775808}).Draw(t, "ikWide")
					}
				case 1:
					k = rapid.SampledFrom([]string{"", "x", "ximu", "true", "12", "a b", "é", "\"q\""}).Draw(t, "sk")
				case 2:
					k = rapid.Bool().Draw(t, "bk")
				case 3:
					k = float64(rapid.IntRange(-100000, 100000).Draw(t, "fk")) / float64(rapid.SampledFrom([]int{1, 10, 1000, 100000}).Draw(t, "fd"))
				}
				r.SpecificItems[k] = int64(rapid.IntRange(0, 50).Draw(t, "ithr"))
			}
			return r
		},
		encode: func(list []any) []byte {
			ws := make([]*datasource.HotspotRule, len(list))
			for i, r := range list {
				if r != nil && !reflect.ValueOf(r).IsNil() {
					ws[i] = wireOf(r.(*hotspot.Rule))
				}
			}
			b, _ := json.Marshal(ws)
			return b
		},
		key: func(r any) string { return hotKey(r.(*hotspot.Rule)) },
		valid: func(r any) bool {
			x := r.(*hotspot.Rule)
			return model.ValidHotspot(x) && (x.ControlBehavior == hotspot.Reject || x.ControlBehavior == hotspot.Throttling) && (x.MetricType == hotspot.QPS || x.MetricType == hotspot.Concurrency)
		},
		current: func() []string {
			var out []string
			for _, r := range hotspot.GetRules() {
				x := r
				out = append(out, hotKey(&x))
			}
			sort.Strings(out)
			return out
		},
		decoded: func(v interface{}) []any {
			var out []any
			for _, r := range v.([]*hotspot.Rule) {
				out = append(out, r)
			}
			return out
		},
		fromJSON: func(b []byte) ([]any, error) {
			var ws []*datasource.HotspotRule
			if err := json.Unmarshal(b, &ws); err != nil {
				return nil, err
			}
			var out []any
			for _, w := range ws {
				if w == nil {
					out = append(out, (*hotspot.Rule)(nil))
					continue
				}
				out = append(out, &hotspot.Rule{ID: w.ID, Resource: w.Resource, MetricType: w.MetricType, ControlBehavior: w.ControlBehavior, ParamIndex: w.ParamIndex, Threshold: w.Threshold,
					MaxQueueingTimeMs: w.MaxQueueingTimeMs, BurstCount: w.BurstCount, DurationInSec: w.DurationInSec, ParamsMaxCapacity: w.ParamsMaxCapacity, SpecificItems: specificFromWire(w.SpecificItems)})
			}
			return out, nil
		},
		wrongTyped: `[{"resource":"a","specificItems":{"valKind":0}}]`,
	}
}

var modules = map[string]func() *module{"flow": flowMod, "isolation": isolationMod, "system": systemMod, "circuitbreaker": cbMod, "hotspot": hotspotMod}

func clearAll() {
	flow.ClearRules()
	isolation.ClearRules()
	system.ClearRules()
	cb.ClearRules()
	hotspot.ClearRules()
}

func deliver(t *rapid.T, h datasource.PropertyHandler, payload []byte) (err error) {
	defer func() {
		if r := recover(); r != nil {
			t.Fatalf("Handle panicked out to the datasource: %v (payload %q)", r, payload)
		}
	}()
	return h.Handle(payload)
}

func runHandler(t *testing.T, name string, n hx.N) {
	hx.Check(t, n, func(t *rapid.T, c *hx.Case) {
		m := modules[name]()
		caseCfg := hx.DefaultStat
		if k := rapid.IntRange(0, 3*len(hx.StatCfgs)).Draw(t, "statConfig"); k < len(hx.StatCfgs) { // one case in three under a legal non-default statistic configuration
			caseCfg = hx.StatCfgs[k]
		}
		c.ClassIf(caseCfg != hx.DefaultStat, "non-default-statistic-configuration")
		hx.ResetCfg(hx.Epoch, caseCfg, nil)
		h := m.handler()
		allowNull := !hx.Known("P10")
		var lastOK []byte
		type okPayload struct {
			payload []byte
			keys    []string
		}
		var okHistory []okPayload // every successfully delivered rule list, for re-submission after clears and errors
		var model []string        // sorted keys in force
		sawOK, sawBad, sawLater, sawNull := false, false, false, false
		sawSparseAfterFull := false
		nd := rapid.IntRange(1, 8).Draw(t, "deliveries")
		for i := 0; i < nd; i++ {
			kind := rapid.IntRange(0, 9).Draw(t, "kind")
			if kind == 8 {
				kind = 7
			}
			if kind == 9 && lastOK == nil {
				kind = 1
			}
			if (kind == 5 || kind == 7) && lastOK == nil {
				kind = 0
			}
			if kind == 6 && len(okHistory) == 0 {
				kind = 1
			}
			switch kind {
			case 0, 1: // a rule list in the module's wire format, possibly with null elements
				var list []any
				k := rapid.IntRange(0, 4).Draw(t, "len")
				hasNull := false
				for j := 0; j < k; j++ {
					if kind == 1 && allowNull && rapid.IntRange(0, 2).Draw(t, "null") == 0 {
						list = append(list, nil)
						hasNull = true
					} else {
						list = append(list, m.gen(t))
					}
				}
				if list == nil {
					list = []any{}
				}
				payload := m.encode(list)
				sparse := false
				if rapid.IntRange(0, 2).Draw(t, "sparse") == 0 {
					// hand-written style: arbitrary keys left out (an omitted key means the zero value). What the payload
					// describes is then given by an independent encoding/json decode into fresh structures.
					if sp, n := sparsify(t, payload); n > 0 {
						if l2, err := m.fromJSON(sp); err == nil && len(l2) == len(list) {
							payload, list, sparse = sp, l2, true
						}
					}
				}
				sawSparseAfterFull = sawSparseAfterFull || (sparse && sawOK)
				// round trip: the parser yields exactly the described rules
				got, perr := m.parse(payload)
				if perr != nil {
					t.Fatalf("%s: parser rejected a well-formed payload %s: %v", m.name, payload, perr)
				}
				dec := m.decoded(got)
				if len(dec) != len(list) {
					t.Fatalf("%s: payload %s decodes to %d rules, describes %d", m.name, payload, len(dec), len(list))
				}
				for j := range list {
					ln := list[j] == nil || reflect.ValueOf(list[j]).IsNil()
					dn := dec[j] == nil || reflect.ValueOf(dec[j]).IsNil()
					if ln != dn || (!ln && !reflect.DeepEqual(normalise(list[j]), normalise(dec[j]))) {
						t.Fatalf("%s: element %d of payload %s decodes to %+v, describes %+v", m.name, j, payload, dec[j], list[j])
					}
				}
				err := deliver(t, h, payload)
				c.Op("deliver list(%d rules, null=%v) -> err=%v", len(list), hasNull, err)
				if err != nil {
					t.Fatalf("%s: a decodable payload was refused: %v (%s)", m.name, err, payload)
				}
				model = sortedKeys(m, list)
				if got := m.current(); fmt.Sprint(got) != fmt.Sprint(model) {
					t.Fatalf("%s: after delivering %s the rules in force are\n  %v\nwant the valid rules of the list\n  %v", m.name, payload, got, model)
				}
				lastOK = payload
				okHistory = append(okHistory, okPayload{payload, model})
				if sawBad {
					sawLater = true
				}
				sawOK = true
				sawNull = sawNull || hasNull
			case 2: // undecodable: wrong field type, truncated, trailing garbage, not an array
				good := m.encode([]any{m.gen(t), m.gen(t)})
				var payload []byte
				switch rapid.IntRange(0, 4).Draw(t, "bad") {
				case 0:
					payload = []byte(m.wrongTyped)
				case 1:
					payload = good[:rapid.IntRange(1, len(good)-1).Draw(t, "cut")]
				case 2:
					payload = append(append([]byte{}, good...), []byte(rapid.SampledFrom([]string{"garbage", "]", "}", "}]", "\n}", " ]", ",", "[]", "null", "0"}).Draw(t, "trailing"))...)
				case 3:
					payload = []byte(`{"resource":"a"}`)
				case 4:
					payload = []byte(rapid.SampledFrom([]string{"[", "]", "[{]", "\x00", "[1,2]", "tru", "\"[]\""}).Draw(t, "junk"))
				}
				before := m.current()
				err := deliver(t, h, payload)
				c.Op("deliver undecodable %q -> err=%v", payload, err)
				if _, jerr := m.fromJSON(payload); jerr == nil {
					break // happened to be decodable after all (e.g. a cut at a boundary): covered by the fuzz invariant
				}
				if err == nil {
					t.Fatalf("%s: undecodable payload %q was accepted", m.name, payload)
				}
				if got := m.current(); fmt.Sprint(got) != fmt.Sprint(before) {
					t.Fatalf("%s: undecodable payload %q changed the rules in force from %v to %v", m.name, payload, before, got)
				}
				sawBad = true
			case 3: // empty payload clears
				var payload []byte
				if rapid.Bool().Draw(t, "nilOrEmpty") {
					payload = []byte{}
				}
				err := deliver(t, h, payload)
				c.Op("deliver empty -> err=%v", err)
				if err != nil {
					t.Fatalf("%s: empty payload returned %v", m.name, err)
				}
				if lastOK != nil || len(model) == 0 {
					model = nil
					if got := m.current(); len(got) != 0 {
						t.Fatalf("%s: empty payload left rules in force: %v", m.name, got)
					}
				}
				lastOK = nil
			case 4: // JSON null / empty array: an empty rule list
				payload := []byte(rapid.SampledFrom([]string{"null", "[]", " [ ] "}).Draw(t, "emptyList"))
				err := deliver(t, h, payload)
				c.Op("deliver %q -> err=%v", payload, err)
				if err != nil {
					t.Fatalf("%s: payload %q returned %v", m.name, payload, err)
				}
				model = nil
				if got := m.current(); len(got) != 0 {
					t.Fatalf("%s: payload %q left rules in force: %v", m.name, payload, got)
				}
				lastOK = payload
			case 6: // an earlier payload again, after whatever happened since (clear, error, other lists): must be applied
				h0 := okHistory[rapid.IntRange(0, len(okHistory)-1).Draw(t, "earlier")]
				err := deliver(t, h, append([]byte{}, h0.payload...))
				c.Op("deliver an earlier payload again -> err=%v", err)
				if err != nil {
					t.Fatalf("%s: an earlier, decodable payload was refused: %v", m.name, err)
				}
				model = h0.keys
				if got := m.current(); fmt.Sprint(got) != fmt.Sprint(model) {
					t.Fatalf("%s: after delivering (again) %s the rules in force are\n  %v\nwant\n  %v", m.name, h0.payload, got, model)
				}
				lastOK = h0.payload
			case 9: // the list delivered last without its null elements, its last rule repeated up to the old length: another list
				list, jerr := m.fromJSON(lastOK)
				var rules []any
				for _, r := range list {
					if r != nil && !reflect.ValueOf(r).IsNil() {
						rules = append(rules, r)
					}
				}
				if jerr != nil || len(rules) == 0 || len(rules) == len(list) {
					break // (no null element to drop)
				}
				for len(rules) < len(list) {
					rules = append(rules, rules[len(rules)-1])
				}
				payload := m.encode(rules)
				err := deliver(t, h, payload)
				c.Op("deliver the last list with its null elements dropped and the last rule repeated -> err=%v", err)
				if err != nil {
					t.Fatalf("%s: a decodable payload was refused: %v (%s)", m.name, err, payload)
				}
				model = sortedKeys(m, rules)
				if got := m.current(); fmt.Sprint(got) != fmt.Sprint(model) {
					t.Fatalf("%s: after a list with null elements (%s), the list %s was delivered; the rules in force are\n  %v\nwant the valid rules of the new list\n  %v", m.name, lastOK, payload, got, model)
				}
				lastOK = payload
				okHistory = append(okHistory, okPayload{payload, model})
				c.Class("list-after-a-list-with-null-elements")
			case 7: // the list delivered last, again, with ONE field of one rule changed a little: a different list, to be applied
				list, jerr := m.fromJSON(lastOK)
				var idx []int
				for j, r := range list {
					if r != nil && !reflect.ValueOf(r).IsNil() {
						idx = append(idx, j)
					}
				}
				if jerr != nil || len(idx) == 0 {
					break
				}
				j := idx[rapid.IntRange(0, len(idx)-1).Draw(t, "element")]
				what := tweakOneField(t, list[j])
				if what == "" {
					break
				}
				payload := m.encode(list)
				err := deliver(t, h, payload)
				c.Op("deliver the last list with %s of element %d changed -> err=%v", what, j, err)
				if err != nil {
					t.Fatalf("%s: a decodable payload was refused: %v (%s)", m.name, err, payload)
				}
				model = sortedKeys(m, list)
				if got := m.current(); fmt.Sprint(got) != fmt.Sprint(model) {
					t.Fatalf("%s: the last list was delivered again with %s of element %d changed (%s); the rules in force are\n  %v\nwant the valid rules of the new list\n  %v", m.name, what, j, payload, got, model)
				}
				lastOK = payload
				okHistory = append(okHistory, okPayload{payload, model})
				c.Class("one-field-edit-of-the-last-list")
			case 5: // identical re-delivery: no-op, runtime state undisturbed
				armed := arm(m)
				before := m.current()
				err := deliver(t, h, append([]byte{}, lastOK...))
				c.Op("re-deliver identical payload (armed state on %v) -> err=%v", armed, err)
				if err != nil {
					t.Fatalf("%s: identical re-delivery returned %v", m.name, err)
				}
				if got := m.current(); fmt.Sprint(got) != fmt.Sprint(before) {
					t.Fatalf("%s: identical re-delivery changed the rules from %v to %v", m.name, before, got)
				}
				for _, res := range armed {
					if !blocked(res) {
						t.Fatalf("%s: identical re-delivery disturbed runtime state: resource %s was blocking (open breaker / drained tokens) before it and admits right after", m.name, res)
					}
				}
			}
		}
		clearAll()
		c.ClassIf(sawNull, "null-element")
		c.ClassIf(sawSparseAfterFull, "keys-omitted-after-an-earlier-list")
		if (sawOK && sawBad && sawLater) || sawNull {
			c.NonTrivial()
		}
	})
}

// tweakOneField changes one field of the rule r (a pointer to a rule struct) a little, in place, and says which: an integer
// field by one, a float field by one or by a few millionths, or the type of one key of a specific-item table
// (the same text as an int, a string, a float or a bool). "" = nothing to change.
func tweakOneField(t *rapid.T, r any) string {
	v := reflect.ValueOf(r).Elem()
	type cand struct {
		name string
		f    reflect.Value
	}
	var cs []cand
	for i := 0; i < v.NumField(); i++ {
		f := v.Field(i)
		if !f.CanSet() {
			continue
		}
		switch f.Kind() {
		case reflect.Int, reflect.Int8, reflect.Int16, reflect.Int32, reflect.Int64, reflect.Uint, reflect.Uint8, reflect.Uint16, reflect.Uint32, reflect.Uint64, reflect.Float64:
			cs = append(cs, cand{v.Type().Field(i).Name, f})
		case reflect.Map:
			if f.Len() > 0 {
				cs = append(cs, cand{v.Type().Field(i).Name, f})
			}
		}
	}
	if len(cs) == 0 {
		return ""
	}
	c := cs[rapid.IntRange(0, len(cs)-1).Draw(t, "field")]
	switch c.f.Kind() {
	case reflect.Float64:
		d := rapid.SampledFrom([]float64{1, 0.5, 1e-6, 3e-7}).Draw(t, "delta") // (the rule managers deliberately treat thresholds closer than 1e-8 as equal)
		c.f.SetFloat(c.f.Float() + d)
		return fmt.Sprintf("%s (+%v)", c.name, d)
	case reflect.Map: // map[interface{}]int64: one key changes its type, keeping its text where possible
		keys := c.f.MapKeys()
		sort.Slice(keys, func(a, b int) bool {
			return fmt.Sprintf("%T%v", keys[a].Interface(), keys[a].Interface()) < fmt.Sprintf("%T%v", keys[b].Interface(), keys[b].Interface())
		})
		k := keys[rapid.IntRange(0, len(keys)-1).Draw(t, "key")]
		val := c.f.MapIndex(k)
		var nk interface{}
		switch x := k.Interface().(type) {
		case string:
			if n, err := strconv.Atoi(x); err == nil {
				nk = n
			} else {
				nk = x + "'"
			}
		default:
			nk = fmt.Sprint(x)
		}
		if c.f.MapIndex(reflect.ValueOf(&nk).Elem()).IsValid() {
			return ""
		}
		c.f.SetMapIndex(k, reflect.Value{})
		c.f.SetMapIndex(reflect.ValueOf(&nk).Elem(), val)
		return fmt.Sprintf("%s (key %T %v -> %T %v)", c.name, k.Interface(), k.Interface(), nk, nk)
	case reflect.Uint, reflect.Uint8, reflect.Uint16, reflect.Uint32, reflect.Uint64:
		c.f.SetUint(c.f.Uint() + 1)
	default:
		c.f.SetInt(c.f.Int() + 1)
	}
	return c.name + " (+1)"
}

// normalise makes decoded and described rules comparable (nil vs empty specific-item maps).
// sparsify removes a drawn subset of the keys of every object of a JSON array of objects; n is the number removed.
func sparsify(t *rapid.T, payload []byte) ([]byte, int) {
	dec := json.NewDecoder(bytes.NewReader(payload))
	dec.UseNumber()
	var arr []any
	if err := dec.Decode(&arr); err != nil {
		return payload, 0
	}
	n := 0
	for _, el := range arr {
		obj, ok := el.(map[string]any)
		if !ok {
			continue
		}
		keys := make([]string, 0, len(obj))
		for k := range obj {
			keys = append(keys, k)
		}
		sort.Strings(keys)
		for _, k := range keys {
			if rapid.IntRange(0, 2).Draw(t, "omit") == 0 {
				delete(obj, k)
				n++
			}
		}
	}
	out, err := json.Marshal(arr)
	if err != nil {
		return payload, 0
	}
	return out, n
}

func normalise(r any) any {
	if h, ok := r.(*hotspot.Rule); ok {
		x := *h
		if len(x.SpecificItems) == 0 {
			x.SpecificItems = nil
		}
		return &x
	}
	return r
}

func blocked(res string) bool {
	e, b := sentinel.Entry(res, sentinel.WithArgs("v", "v"))
	if e != nil {
		e.Exit()
	}
	return b != nil
}

// arm drives a and b into state that a rebuild of the controllers would lose (open breaker, drained
// hot-parameter tokens) and returns the resources that now block.
func arm(m *module) []string {
	if m.name != "circuitbreaker" && m.name != "hotspot" {
		return nil
	}
	var out []string
	for _, res := range []string{"a", "b"} {
		for i := 0; i < 6; i++ {
			e, b := sentinel.Entry(res, sentinel.WithArgs("v", "v"))
			if b != nil {
				out = append(out, res)
				break
			}
			e.Exit(base.WithError(errors.New("x")))
		}
	}
	return out
}

func TestFlowHandler(t *testing.T) { runHandler(t, "flow", hx.N{Quick: 4000, Thorough: 30000}) }
func TestIsolationHandler(t *testing.T) {
	runHandler(t, "isolation", hx.N{Quick: 4000, Thorough: 30000})
}
func TestSystemHandler(t *testing.T) { runHandler(t, "system", hx.N{Quick: 4000, Thorough: 30000}) }
func TestCircuitBreakerHandler(t *testing.T) {
	runHandler(t, "circuitbreaker", hx.N{Quick: 4000, Thorough: 30000})
}
func TestHotspotHandler(t *testing.T) { runHandler(t, "hotspot", hx.N{Quick: 4000, Thorough: 30000}) }

// ---- fuzz invariant for arbitrary bytes (native fuzzing in the thorough tier; seed corpus in quick) ----

func fuzzInvariant(t *testing.T, name string, payload []byte) {
	m := modules[name]()
	hx.Install()
	clearAll()
	h := m.handler()
	// a known starting state
	seed := m.encode([]any{})
	_ = h.Handle(seed)
	before := m.current()
	var err error
	func() {
		defer func() {
			if r := recover(); r != nil {
				t.Fatalf("%s: Handle panicked on %q: %v", name, payload, r)
			}
		}()
		err = h.Handle(payload)
	}()
	if err != nil {
		if got := m.current(); fmt.Sprint(got) != fmt.Sprint(before) {
			t.Fatalf("%s: payload %q returned an error but changed the rules: %v -> %v", name, payload, before, got)
		}
		return
	}
	if len(payload) == 0 {
		if got := m.current(); len(got) != 0 {
			t.Fatalf("%s: empty payload left rules %v", name, got)
		}
		return
	}
	list, jerr := m.fromJSON(payload)
	if jerr != nil {
		t.Fatalf("%s: payload %q is not decodable by encoding/json (%v) but was accepted", name, payload, jerr)
	}
	want := sortedKeys(m, list)
	if got := m.current(); fmt.Sprint(got) != fmt.Sprint(want) {
		t.Fatalf("%s: payload %q accepted; rules in force %v, valid rules of an independent decode %v", name, payload, got, want)
	}
	clearAll()
}

func addCorpus(f *testing.F, name string) {
	m := modules[name]()
	for _, s := range []string{"", "[]", "null", "[null]", "{}", "[{}]", "[1]", "\"x\"", m.wrongTyped, "[{\"resource\":\"a\",\"threshold\":1}]",
		"[{\"resource\":\"a\",\"threshold\":1e400}]", "[{\"resource\":\"a\",\"threshold\":-1},null,{\"resource\":\"b\"}]", "[[]]", "[{\"resource\":null}]",
		"[{\"resource\":\"a\",\"specificItems\":[{\"valKind\":3,\"valStr\":\"1.123456789\",\"threshold\":1},{\"valKind\":0,\"valStr\":\"x\"},{\"valKind\":9}]}]",
		"[{\"metricType\":0,\"triggerCount\":1,\"strategy\":-1}]", "[{\"resource\":\"a\",\"strategy\":2,\"retryTimeoutMs\":10,\"statIntervalMs\":1000,\"threshold\":1}]"} {
		f.Add([]byte(s))
	}
	for _, p := range []string{"FlowRule.json", "SystemRule.json", "CircuitBreakerRule.json", "HotSpotParamFlowRule.json", "IsolationRule.json"} {
		if b, err := os.ReadFile(filepath.Join("/repo/tests/testdata/extension/helper", p)); err == nil {
			f.Add(b)
		}
	}
}

func FuzzFlowHandler(f *testing.F) {
	addCorpus(f, "flow")
	f.Fuzz(func(t *testing.T, b []byte) { fuzzInvariant(t, "flow", b) })
}
func FuzzIsolationHandler(f *testing.F) {
	addCorpus(f, "isolation")
	f.Fuzz(func(t *testing.T, b []byte) { fuzzInvariant(t, "isolation", b) })
}
func FuzzSystemHandler(f *testing.F) {
	addCorpus(f, "system")
	f.Fuzz(func(t *testing.T, b []byte) { fuzzInvariant(t, "system", b) })
}
func FuzzCircuitBreakerHandler(f *testing.F) {
	addCorpus(f, "circuitbreaker")
	f.Fuzz(func(t *testing.T, b []byte) { fuzzInvariant(t, "circuitbreaker", b) })
}
func FuzzHotspotHandler(f *testing.F) {
	addCorpus(f, "hotspot")
	f.Fuzz(func(t *testing.T, b []byte) { fuzzInvariant(t, "hotspot", b) })
}

// ---- file datasource (real fsnotify watcher, real clock; few cases, retry-before-report) ----------------

func waitFor(cond func() bool, budget time.Duration) bool {
	deadline := time.Now().Add(budget)
	for time.Now().Before(deadline) {
		if cond() {
			return true
		}
		time.Sleep(2 * time.Millisecond)
	}
	return cond()
}

type fileEvent struct {
	kind int // 0 write A, 1 write B, 2 truncate, 3 remove
}

func playFile(events []fileEvent, m *module, lists [][]any) (string, bool) {
	dir, err := os.MkdirTemp("", "c18file")
	if err != nil {
		return "mkdtemp: " + err.Error(), true
	}
	defer os.RemoveAll(dir)
	path := filepath.Join(dir, "rules.json")
	if err := os.WriteFile(path, m.encode(lists[0]), 0o644); err != nil {
		return err.Error(), true
	}
	clearAll()
	ds := file.NewFileDataSource(path, m.handler())
	if err := ds.Initialize(); err != nil {
		return "Initialize: " + err.Error(), true
	}
	defer func() { go ds.Close() }() // Close blocks forever once the watcher goroutine has gone (after a remove): never wait for it
	want := sortedKeys(m, lists[0])
	if !waitFor(func() bool { return fmt.Sprint(m.current()) == fmt.Sprint(want) }, 10*time.Second) {
		return fmt.Sprintf("after Initialize the rules are %v, the file describes %v", m.current(), want), false
	}
	// pick returns the drawn list, or the other one when the drawn list would leave the rules in force unchanged: only an
	// event that changes the expected rules lets the convergence check tell "the watcher has handled it" from "not yet"
	pick := func(k int) []any {
		if fmt.Sprint(sortedKeys(m, lists[1+k])) != fmt.Sprint(want) {
			return lists[1+k]
		}
		if fmt.Sprint(sortedKeys(m, lists[2-k])) != fmt.Sprint(want) {
			return lists[2-k]
		}
		return nil
	}
	// two files prepared now (their modification time is older than anything written later) to be rotated in by events 10, 11
	bigDone := false
	prepared := map[int]bool{}
	for k := 0; k < 2; k++ {
		if err := os.WriteFile(path+fmt.Sprint(".prepared", k), m.encode(lists[1+k]), 0o644); err != nil {
			return err.Error(), true
		}
		prepared[k] = true
	}
	undecodable := false // the file's content has been made undecodable in place (event 8) and not been rewritten since
	for i, ev := range events {
		switch ev.kind {
		case 12: // a big file (well over a megabyte): list A followed by thousands of copies of its first rule on resources of their own
			base := m.encode(lists[1])
			var elems []json.RawMessage
			if json.Unmarshal(base, &elems) != nil || len(elems) == 0 || bigDone {
				continue
			}
			var tmpl map[string]interface{}
			if json.Unmarshal(elems[0], &tmpl) != nil || tmpl == nil {
				continue
			}
			bigDone = true
			for k := 0; k < 8000; k++ {
				tmpl["resource"] = fmt.Sprintf("filler-%05d-%s", k, strings.Repeat("x", 100))
				b, _ := json.Marshal(tmpl)
				elems = append(elems, b)
			}
			payload, _ := json.Marshal(elems)
			l, jerr := m.fromJSON(payload)
			if jerr != nil {
				continue
			}
			if err := os.WriteFile(path, payload, 0o644); err != nil {
				return err.Error(), true
			}
			want = sortedKeys(m, l)
		case 9: // the file is renamed away and the very same file is renamed back: the same content is in force again
			if err := os.Rename(path, path+".away"); err != nil {
				return err.Error(), true
			}
			if err := os.Rename(path+".away", path); err != nil {
				return err.Error(), true
			}
			if undecodable { // the rename clears the rules, and what the file holds since the last event 8 cannot be decoded: nothing comes back
				want = nil
			}
			time.Sleep(300 * time.Millisecond) // (the expected rules may not change: let the watcher see the rename before converging)
		case 10, 11: // the file is renamed away and a file prepared earlier (older modification time) is rotated in
			k := ev.kind - 10
			if !prepared[k] || fmt.Sprint(sortedKeys(m, lists[1+k])) == fmt.Sprint(want) {
				continue
			}
			prepared[k] = false
			if err := os.Rename(path, path+fmt.Sprint(".old", i)); err != nil {
				return err.Error(), true
			}
			if err := os.Rename(path+fmt.Sprint(".prepared", k), path); err != nil {
				return err.Error(), true
			}
			want = sortedKeys(m, lists[1+k])
		case 0, 1:
			l := pick(ev.kind)
			if l == nil {
				continue
			}
			if err := os.WriteFile(path, m.encode(l), 0o644); err != nil {
				return err.Error(), true
			}
			want = sortedKeys(m, l)
		case 2:
			if err := os.Truncate(path, 0); err != nil {
				return err.Error(), true
			}
			want = nil
		case 3:
			if err := os.Remove(path); err != nil {
				return err.Error(), true
			}
			want = nil
		case 8: // the first byte of the file is overwritten so that the content is undecodable: an error is logged, the rules in force stay
			// (in place, one write, no truncation: a truncate-then-write would legitimately show the watcher an empty file first)
			f, err := os.OpenFile(path, os.O_WRONLY, 0)
			if err != nil {
				return err.Error(), true
			}
			_, err = f.WriteAt([]byte("X"), 0)
			f.Close()
			if err != nil {
				return err.Error(), true
			}
			undecodable = true
			time.Sleep(150 * time.Millisecond) // (nothing observable is expected to change: give the watcher time to react)
		case 4, 5: // the file is renamed away and a new file is put in its place (list A / list B)
			l := pick(ev.kind - 4)
			if l == nil {
				continue
			}
			if err := os.Rename(path, path+fmt.Sprint(".old", i)); err != nil {
				return err.Error(), true
			}
			if err := os.WriteFile(path, m.encode(l), 0o644); err != nil {
				return err.Error(), true
			}
			want = sortedKeys(m, l)
		case 6, 7: // atomic replacement: the new content is written beside the file and renamed over it
			l := lists[1+ev.kind-6]
			if err := os.WriteFile(path+".tmp", m.encode(l), 0o644); err != nil {
				return err.Error(), true
			}
			if err := os.Rename(path+".tmp", path); err != nil {
				return err.Error(), true
			}
			want = sortedKeys(m, l)
		}
		if ev.kind != 8 && ev.kind != 9 {
			undecodable = false // (every other event that was carried out rewrote, replaced or removed the content)
		}
		if !waitFor(func() bool { return fmt.Sprint(m.current()) == fmt.Sprint(want) }, 10*time.Second) {
			msg := fmt.Sprintf("event %d (kind %d): rules in force %v", i, ev.kind, m.current())
			if len(msg) > 1500 {
				msg = msg[:1500] + "..."
			}
			ws := fmt.Sprint(want)
			if len(ws) > 1500 {
				ws = ws[:1500] + fmt.Sprintf("... (%d rules)", len(want))
			}
			return msg + ", file content describes " + ws, false
		}
		if ev.kind == 3 {
			break
		}
	}
	return "", false
}

var eventKinds = []int{0, 1, 0, 1, 2, 3, 4, 5, 8, 8, 9, 10, 11, 12}

func TestFileDatasource(t *testing.T) {
	hx.Check(t, hx.N{Quick: 40, Thorough: 80}, func(t *rapid.T, c *hx.Case) {
		hx.Install()
		util.SetClock(util.NewRealClock()) // the watcher loop sleeps and retries on the library clock
		defer util.SetClock(hx.C)
		m := modules[rapid.SampledFrom([]string{"flow", "isolation", "hotspot"}).Draw(t, "module")]()
		lists := make([][]any, 3)
		for i := range lists {
			k := rapid.IntRange(1, 3).Draw(t, "len")
			for j := 0; j < k; j++ {
				lists[i] = append(lists[i], m.gen(t))
			}
		}
		var events []fileEvent
		ne := rapid.IntRange(1, 5).Draw(t, "events")
		for i := 0; i < ne; i++ {
			k := rapid.SampledFrom(eventKinds).Draw(t, "event")
			if len(events) > 0 && events[len(events)-1].kind == 8 && rapid.Bool().Draw(t, "removeAfterUndecodable") {
				k = 3 // the file is removed while its last content could not be decoded: the rules in force must still be cleared
			}
			events = append(events, fileEvent{k})
		}
		c.Op("module=%s events=%v", m.name, events)
		var msg string
		for attempt := 0; attempt < 3; attempt++ {
			var infra bool
			msg, infra = playFile(events, m, lists)
			if infra { // e.g. the per-user inotify instance limit: not a verdict about the library
				fmt.Println("INCONCLUSIVE: C18 file datasource:", msg)
				c.Count("inconclusive_infrastructure", 1)
				clearAll()
				return
			}
			if msg == "" {
				break
			}
		}
		clearAll()
		if msg != "" {
			t.Fatalf("file datasource did not converge in 3 replays of the same event sequence: %s", msg)
		}
		c.NonTrivial()
	})
}

// A datasource hands every payload to every property handler registered at that moment: histories of AddPropertyHandler /
// RemovePropertyHandler / Handle over one datasource.Base with three recording handlers. After a delivery every registered
// handler holds the delivered payload (whether it got it now or already held it), every other handler is untouched.
func TestBaseHandlers(t *testing.T) {
	hx.Check(t, hx.N{Quick: 4000, Thorough: 40000}, func(t *rapid.T, c *hx.Case) {
		var b datasource.Base
		const nh = 3
		holds := make([]string, nh)
		calls := make([]int, nh)
		hs := make([]datasource.PropertyHandler, nh)
		for i := 0; i < nh; i++ {
			i := i
			hs[i] = datasource.NewDefaultPropertyHandler(
				func(src []byte) (interface{}, error) { return string(src), nil },
				func(data interface{}) error { holds[i] = data.(string); calls[i]++; return nil })
		}
		registered := make([]bool, nh)
		lateAfterDelivery := false
		delivered := false
		n := rapid.IntRange(1, 14).Draw(t, "ops")
		for k := 0; k < n; k++ {
			switch op := rapid.IntRange(0, 4).Draw(t, "op"); {
			case op == 0:
				i := rapid.IntRange(0, nh-1).Draw(t, "h")
				b.AddPropertyHandler(hs[i])
				if !registered[i] && delivered {
					lateAfterDelivery = true
				}
				registered[i] = true
				c.Op("add handler %d", i)
			case op == 1:
				i := rapid.IntRange(0, nh-1).Draw(t, "h")
				b.RemovePropertyHandler(hs[i])
				registered[i] = false
				c.Op("remove handler %d", i)
			default:
				p := rapid.SampledFrom([]string{"A", "B", "A", "C"}).Draw(t, "payload")
				before := append([]string(nil), holds...)
				err := b.Handle([]byte(p))
				delivered = true
				c.Op("deliver %q -> %v (handlers hold %v)", p, err, holds)
				if err != nil {
					t.Fatalf("Handle(%q): %v", p, err)
				}
				for i := 0; i < nh; i++ {
					if registered[i] && holds[i] != p {
						t.Fatalf("payload %q was delivered to the datasource but registered handler %d still holds %q (registered %v, all handlers hold %v)", p, i, holds[i], registered, holds)
					}
					if !registered[i] && holds[i] != before[i] {
						t.Fatalf("handler %d is not registered but received payload %q", i, p)
					}
				}
			}
		}
		c.ClassIf(lateAfterDelivery, "handler-added-after-a-delivery")
		if lateAfterDelivery {
			c.NonTrivial()
		}
	})
}

// The wire format spelled out literally: JSON documents are written by hand with the documented member names (not by
// marshalling the library's structs) from drawn values, and the parsers must yield rules with exactly those values.
func TestWireFieldNames(t *testing.T) {
	hx.Check(t, hx.N{Quick: 3000, Thorough: 30000}, func(t *rapid.T, c *hx.Case) {
		u32 := func(l string) uint32 { return uint32(rapid.IntRange(0, 100000).Draw(t, l)) }
		i64 := func(l string) int64 { return int64(rapid.IntRange(-3, 100000).Draw(t, l)) }
		fl := func(l string) float64 { return float64(rapid.IntRange(0, 4000).Draw(t, l)) / 8 }
		str := func(l string) string { return rapid.SampledFrom([]string{"", "a", "svc/b", "x y"}).Draw(t, l) }
		switch mod := rapid.SampledFrom([]string{"flow", "isolation", "system", "circuitbreaker", "hotspot"}).Draw(t, "module"); mod {
		case "flow":
			w := flow.Rule{ID: str("id"), Resource: str("res"), TokenCalculateStrategy: flow.TokenCalculateStrategy(rapid.IntRange(0, 2).Draw(t, "tcs")), ControlBehavior: flow.ControlBehavior(rapid.IntRange(0, 1).Draw(t, "cb")),
				Threshold: fl("thr"), RelationStrategy: flow.RelationStrategy(rapid.IntRange(0, 1).Draw(t, "rel")), RefResource: str("ref"), MaxQueueingTimeMs: u32("q"), WarmUpPeriodSec: u32("wp"),
				WarmUpColdFactor: u32("cf"), StatIntervalInMs: u32("iv"), LowMemUsageThreshold: i64("lt"), HighMemUsageThreshold: i64("ht"), MemLowWaterMarkBytes: i64("lm"), MemHighWaterMarkBytes: i64("hm")}
			doc := fmt.Sprintf(`[{"id":%q,"resource":%q,"tokenCalculateStrategy":%d,"controlBehavior":%d,"threshold":%v,"relationStrategy":%d,"refResource":%q,"maxQueueingTimeMs":%d,"warmUpPeriodSec":%d,"warmUpColdFactor":%d,"statIntervalInMs":%d,"lowMemUsageThreshold":%d,"highMemUsageThreshold":%d,"memLowWaterMarkBytes":%d,"memHighWaterMarkBytes":%d}]`,
				w.ID, w.Resource, w.TokenCalculateStrategy, w.ControlBehavior, w.Threshold, w.RelationStrategy, w.RefResource, w.MaxQueueingTimeMs, w.WarmUpPeriodSec, w.WarmUpColdFactor, w.StatIntervalInMs, w.LowMemUsageThreshold, w.HighMemUsageThreshold, w.MemLowWaterMarkBytes, w.MemHighWaterMarkBytes)
			c.Op("%s", doc)
			got, err := datasource.FlowRuleJsonArrayParser([]byte(doc))
			if err != nil {
				t.Fatalf("flow parser rejected %s: %v", doc, err)
			}
			if rs := got.([]*flow.Rule); len(rs) != 1 || *rs[0] != w {
				t.Fatalf("flow document %s decodes to %+v, describes %+v", doc, rs, w)
			}
		case "isolation":
			w := isolation.Rule{ID: str("id"), Resource: str("res"), MetricType: isolation.MetricType(rapid.IntRange(0, 2).Draw(t, "mt")), Threshold: u32("thr")}
			doc := fmt.Sprintf(`[{"id":%q,"resource":%q,"metricType":%d,"threshold":%d}]`, w.ID, w.Resource, w.MetricType, w.Threshold)
			c.Op("%s", doc)
			got, err := datasource.IsolationRuleJsonArrayParser([]byte(doc))
			if err != nil {
				t.Fatalf("isolation parser rejected %s: %v", doc, err)
			}
			if rs := got.([]*isolation.Rule); len(rs) != 1 || *rs[0] != w {
				t.Fatalf("isolation document %s decodes to %+v, describes %+v", doc, rs, w)
			}
		case "system":
			w := system.Rule{ID: str("id"), MetricType: system.MetricType(rapid.IntRange(0, 5).Draw(t, "mt")), TriggerCount: fl("trig"), Strategy: system.AdaptiveStrategy(rapid.SampledFrom([]int{-1, 1}).Draw(t, "st"))}
			doc := fmt.Sprintf(`[{"id":%q,"metricType":%d,"triggerCount":%v,"strategy":%d}]`, w.ID, w.MetricType, w.TriggerCount, w.Strategy)
			c.Op("%s", doc)
			got, err := datasource.SystemRuleJsonArrayParser([]byte(doc))
			if err != nil {
				t.Fatalf("system parser rejected %s: %v", doc, err)
			}
			if rs := got.([]*system.Rule); len(rs) != 1 || *rs[0] != w {
				t.Fatalf("system document %s decodes to %+v, describes %+v", doc, rs, w)
			}
		case "circuitbreaker":
			w := cb.Rule{Id: str("id"), Resource: str("res"), Strategy: cb.Strategy(rapid.IntRange(0, 3).Draw(t, "st")), RetryTimeoutMs: u32("retry"), MinRequestAmount: uint64(u32("min")), StatIntervalMs: u32("iv"),
				StatSlidingWindowBucketCount: u32("bc"), MaxAllowedRtMs: uint64(u32("rt")), Threshold: fl("thr"), ProbeNum: uint64(u32("probe"))}
			doc := fmt.Sprintf(`[{"id":%q,"resource":%q,"strategy":%d,"retryTimeoutMs":%d,"minRequestAmount":%d,"statIntervalMs":%d,"statSlidingWindowBucketCount":%d,"maxAllowedRtMs":%d,"threshold":%v,"probeNum":%d}]`,
				w.Id, w.Resource, w.Strategy, w.RetryTimeoutMs, w.MinRequestAmount, w.StatIntervalMs, w.StatSlidingWindowBucketCount, w.MaxAllowedRtMs, w.Threshold, w.ProbeNum)
			c.Op("%s", doc)
			got, err := datasource.CircuitBreakerRuleJsonArrayParser([]byte(doc))
			if err != nil {
				t.Fatalf("circuitbreaker parser rejected %s: %v", doc, err)
			}
			if rs := got.([]*cb.Rule); len(rs) != 1 || *rs[0] != w {
				t.Fatalf("circuitbreaker document %s decodes to %+v, describes %+v", doc, rs, w)
			}
		case "hotspot":
			w := hotspot.Rule{ID: str("id"), Resource: str("res"), MetricType: hotspot.MetricType(rapid.IntRange(0, 1).Draw(t, "mt")), ControlBehavior: hotspot.ControlBehavior(rapid.IntRange(0, 1).Draw(t, "cb")), ParamIndex: int(i64("idx")),
				Threshold: i64("thr"), MaxQueueingTimeMs: i64("q"), BurstCount: i64("burst"), DurationInSec: i64("dur"), ParamsMaxCapacity: i64("cap"), SpecificItems: map[interface{}]int64{}}
			iv, sv, bv := rapid.IntRange(-1000000, 1000000).Draw(t, "intItem"), str("strItem"), rapid.Bool().Draw(t, "boolItem")
			it, stt, bt := i64("it"), i64("stt"), i64("bt")
			w.SpecificItems[iv], w.SpecificItems[sv], w.SpecificItems[bv], w.SpecificItems[2.5] = it, stt, bt, 9
			doc := fmt.Sprintf(`[{"id":%q,"resource":%q,"metricType":%d,"controlBehavior":%d,"paramIndex":%d,"threshold":%d,"maxQueueingTimeMs":%d,"burstCount":%d,"durationInSec":%d,"paramsMaxCapacity":%d,"specificItems":[{"valKind":0,"valStr":"%d","threshold":%d},{"valKind":1,"valStr":%q,"threshold":%d},{"valKind":2,"valStr":"%v","threshold":%d},{"valKind":3,"valStr":"2.5","threshold":9}]}]`,
				w.ID, w.Resource, w.MetricType, w.ControlBehavior, w.ParamIndex, w.Threshold, w.MaxQueueingTimeMs, w.BurstCount, w.DurationInSec, w.ParamsMaxCapacity, iv, it, sv, stt, bv, bt)
			c.Op("%s", doc)
			got, err := datasource.HotSpotParamRuleJsonArrayParser([]byte(doc))
			if err != nil {
				t.Fatalf("hotspot parser rejected %s: %v", doc, err)
			}
			if rs := got.([]*hotspot.Rule); len(rs) != 1 || !reflect.DeepEqual(*rs[0], w) {
				t.Fatalf("hotspot document %s decodes to %+v, describes %+v", doc, rs, w)
			}
		}
		c.NonTrivial()
	})
}
