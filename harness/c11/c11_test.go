// C11: adaptive thresholds (warm-up, memory-adaptive) stay inside their configured envelope.
package c11

import (
	"math"
	"testing"

	sentinel "github.com/alibaba/sentinel-golang/api"
	"github.com/alibaba/sentinel-golang/core/flow"
	"github.com/alibaba/sentinel-golang/core/system_metric"
	"pgregory.net/rapid"

	"verif/harness/hx"
)

func TestMain(m *testing.M) { hx.Main(m, "C11") }

type cfg struct {
	T     float64
	P     uint32
	CF    uint32
	I     uint32     // StatIntervalInMs: 0 (the default 1000 ms) or a shorter interval; the threshold is per interval
	Front bool       // an inert direct/reject rule is listed before the warm-up rule
	Thr   bool       // control behaviour throttling (no queueing) instead of reject: the warm-up threshold paces the requests
	Pre   int        // family of the rule the resource carried before (0 = none): the warm-up rule replaces it by a reload
	SC    hx.StatCfg // process-wide statistic configuration (zero value: the default)
	Twice bool       // the warm-up rule is listed twice (equal values, distinct objects): the two controllers move in lockstep
}

func (c cfg) iv() int {
	if c.I == 0 {
		return int(c.stat().MI) // the default metric's interval of the process-wide configuration (1000 ms unless configured)
	}
	return int(c.I)
}

func (c cfg) stat() hx.StatCfg {
	if c.SC == (hx.StatCfg{}) {
		return hx.DefaultStat
	}
	return c.SC
}

func (c cfg) cf() float64 {
	if c.CF <= 1 {
		return 3 // documented default cold factor
	}
	return float64(c.CF)
}

// predecessor returns a rule of another family for the same resource and statistic interval (what the resource
// carried before the warm-up rule was configured); nil for family 0. No traffic runs under it.
func predecessor(c cfg) *flow.Rule {
	p := &flow.Rule{Resource: "w", Threshold: 7, StatIntervalInMs: c.I, MaxQueueingTimeMs: 10,
		LowMemUsageThreshold: 9, HighMemUsageThreshold: 3, MemLowWaterMarkBytes: 1024, MemHighWaterMarkBytes: 2048, WarmUpPeriodSec: 3, WarmUpColdFactor: 2}
	switch c.Pre {
	case 1:
		p.TokenCalculateStrategy, p.ControlBehavior = flow.Direct, flow.Reject
	case 2:
		p.TokenCalculateStrategy, p.ControlBehavior = flow.Direct, flow.Throttling
	case 3:
		p.TokenCalculateStrategy, p.ControlBehavior = flow.MemoryAdaptive, flow.Reject
	case 4:
		p.TokenCalculateStrategy, p.ControlBehavior = flow.MemoryAdaptive, flow.Throttling
	case 5:
		p.TokenCalculateStrategy, p.ControlBehavior = flow.WarmUp, flow.Throttling
	case 6:
		p.TokenCalculateStrategy, p.ControlBehavior = flow.WarmUp, flow.Reject
	default:
		return nil
	}
	return p
}

func loadWarm(t *rapid.T, c cfg) {
	hx.ResetCfg(hx.Epoch, c.stat(), nil)
	if p := predecessor(c); p != nil {
		if _, err := flow.LoadRules([]*flow.Rule{p}); err != nil || len(flow.GetRulesOfResource("w")) != 1 {
			t.Fatalf("predecessor rule %+v not accepted: %v", p, err)
		}
	}
	front := []*flow.Rule{}
	if c.Front {
		front = append(front, &flow.Rule{ID: "front", Resource: "w", Threshold: 1e9}) // never blocks; reads the resource's shared window
	}
	list := append(front, warmRule(c))
	if c.Twice {
		list = append(list, warmRule(c))
	}
	if _, err := flow.LoadRules(list); err != nil {
		t.Fatalf("LoadRules: %v", err)
	}
	if len(flow.GetRulesOfResource("w")) != len(list) {
		t.Fatalf("valid warm-up rule %+v not accepted", c)
	}
}

func warmRule(c cfg) *flow.Rule {
	r := &flow.Rule{Resource: "w", Threshold: c.T, TokenCalculateStrategy: flow.WarmUp, ControlBehavior: flow.Reject, WarmUpPeriodSec: c.P, WarmUpColdFactor: c.CF, StatIntervalInMs: c.I}
	if c.Thr {
		r.ControlBehavior, r.MaxQueueingTimeMs = flow.Throttling, 0
	}
	return r
}

// partialUpdate reloads the whole rule set with the rules of resource w unchanged (fresh equal objects) and a rule of
// another resource changed: the warm-up state of w must survive.
func partialUpdate(t *rapid.T, c cfg, k int) {
	var l []*flow.Rule
	if c.Front {
		l = append(l, &flow.Rule{ID: "front", Resource: "w", Threshold: 1e9})
	}
	l = append(l, warmRule(c))
	if c.Twice {
		l = append(l, warmRule(c))
	}
	l = append(l, &flow.Rule{Resource: "elsewhere", Threshold: float64(k)})
	if _, err := flow.LoadRules(l); err != nil {
		t.Fatalf("partial update: %v", err)
	}
}

// ivMs is the statistic interval of the rule of the running case (the unit the threshold is expressed in).
var ivMs = 1000

// demand issues perSec single-token requests per aligned statistic interval for secs seconds starting at
// aligned second startSec (relative to the epoch) and returns the admitted count per interval.
func demand(startSec, secs, perSec int) []int {
	var per []int
	for s := 0; s < (secs*1000+ivMs-1)/ivMs; s++ {
		n := 0
		for k := 0; k < perSec; k++ {
			hx.C.SetMs(hx.Epoch + uint64(startSec)*1000 + uint64(s*ivMs) + uint64(k*ivMs)/uint64(perSec))
			if e, _ := sentinel.Entry("w"); e != nil {
				n++
				e.Exit()
			}
		}
		per = append(per, n)
	}
	return per
}

// drawStat: one case in three runs under a legal non-default process-wide statistic configuration.
func drawStat(t *rapid.T) hx.StatCfg {
	if k := rapid.IntRange(0, 3*len(hx.StatCfgs)).Draw(t, "statConfig"); k < len(hx.StatCfgs) {
		// (the demand phases of this check start on whole seconds: configurations whose array bucket is longer than a second
		// would make the statistic windows tumble out of step with them)
		if sc := hx.StatCfgs[k]; sc.GI/sc.GS <= 1000 {
			return sc
		}
	}
	return hx.DefaultStat
}

func drawCfg(t *rapid.T) cfg {
	T := rapid.SampledFrom([]float64{0, 0.5, 1, 1.5, 2, 3, 5, 7.5, 10, 37.5, 100, 1000}).Draw(t, "T")
	maxP := 30
	if T >= 100 {
		maxP = 5
	}
	if T >= 1000 {
		maxP = 2
	}
	return cfg{T: T, P: uint32(rapid.IntRange(1, maxP).Draw(t, "P")), CF: uint32(rapid.SampledFrom([]int{0, 2, 3, 5, 10}).Draw(t, "CF")),
		I:   uint32(rapid.SampledFrom([]int{0, 0, 0, 0, 1000, 500, 250, 2000}).Draw(t, "statIntervalMs")),
		Pre: rapid.SampledFrom([]int{0, 0, 0, 1, 2, 3, 4, 5, 6}).Draw(t, "predecessor"), Front: rapid.IntRange(0, 3).Draw(t, "inertRuleInFront") == 0,
		SC: drawStat(t), Twice: rapid.IntRange(0, 4).Draw(t, "listedTwice") == 0}
}

func TestWarmUpEnvelope(t *testing.T) {
	hx.Check(t, hx.N{Quick: 4000, Thorough: 20000}, func(t *rapid.T, c *hx.Case) {
		g := drawCfg(t)
		ivMs = g.iv()
		defer func() { ivMs = 1000 }()
		cf := g.cf()
		floorT := int(math.Floor(g.T))
		starveShape := g.T/cf <= 1 // "<= 1": at T/cf == 1 the computed cold threshold can round to just below 1
		truncShape := uint64(2*float64(g.P)*g.T/(1+cf)) == 0
		exP9 := hx.Known("P9")
		// P28 (known): with a statistic interval above 1 s the refill (threshold tokens per second) outruns the drain
		// (at most threshold per interval), so the rule never leaves the cold rate
		slowShape := ivMs > 1000
		exP28 := hx.Known("P28")
		sat := int(math.Ceil(3 * g.T))
		if sat < 3 {
			sat = 3
		}
		warm := int(2*g.P + 2)
		scenario := rapid.IntRange(0, 5).Draw(t, "scenario")
		// pacing variant (scenarios 0 and 1, default interval, integral threshold >= 2): requests are spaced by 1/threshold, so an
		// aligned second holds at most floor(T)+1 and, under saturating demand, at least floor(T)-1 admitted requests
		slack := 0
		if (scenario == 0 || scenario == 1) && g.iv() == 1000 && g.T >= 2 && g.T == math.Floor(g.T) && rapid.IntRange(0, 3).Draw(t, "pacing") == 0 {
			g.Thr, slack = true, 1
			c.Class("warm-up-with-pacing-behaviour")
			if scenario != 0 {
				g.Twice = false // (a twice-listed pacing rule is only followed through scenario 0, where its lower bound is weakened)
			}
		}
		if slowShape && exP28 {
			// only the clause "never above the threshold" is asserted for this shape (arbitrary demand phases)
			scenario = 3
			c.Excluded("P28")
		}
		c.Op("T=%v period=%ds coldFactor=%d statInterval=%dms predecessor-family=%d scenario=%d", g.T, g.P, g.CF, g.iv(), g.Pre, scenario)
		c.ClassIf(g.Pre != 0, "replaces-a-rule-of-another-family")
		coldBound := int(math.Ceil(g.T/cf)) + 1
		switch scenario {
		case 0: // cold start, then saturating demand through the warm-up period
			loadWarm(t, g)
			per := demand(0, warm+4, sat)
			c.Op("admitted/s %v", per)
			for s, n := range per {
				if n > floorT+slack {
					t.Fatalf("second %d: admitted %d > floor(threshold %v) (admitted/s %v)", s, n, g.T, per)
				}
			}
			if per[0] > coldBound+slack && !(starveShape && exP9) {
				t.Fatalf("cold start: first second admitted %d > ceil(T/coldFactor)+1 = %d", per[0], coldBound)
			}
			if starveShape && exP9 {
				c.Excluded("P9")
			} else {
				for s := warm * 1000 / ivMs; s < len(per); s++ {
					if per[s] != floorT && !(g.Thr && per[s] >= floorT-1) && !(g.Thr && g.Twice) {
						t.Fatalf("after %d s of saturating demand (period %d s): second %d admitted %d, full threshold is floor(%v) (admitted/s %v)", warm, g.P, s, per[s], g.T, per)
					}
				}
				// a partial update (the warm-up rule unchanged, a rule of another resource changed) in the middle of the demand:
				// the rule stays warm
				if rapid.Bool().Draw(t, "partialUpdateWhileWarm") {
					partialUpdate(t, g, 1+rapid.IntRange(0, 5).Draw(t, "otherThreshold"))
					again := demand(warm+4, 3, sat)
					c.Op("after a partial update admitted/s %v", again)
					c.Class("partial-update-while-warm")
					if g.Thr && g.Twice {
						// (two pacing controllers with no queueing drift apart whenever the second one refuses a request the first one
						// has already booked: the rate they admit together is below the threshold, but never nothing at all)
						sum := 0
						for _, n := range again {
							sum += n
						}
						if sum == 0 && floorT >= 1 {
							t.Fatalf("warmed up, then a partial update with the (twice listed) pacing warm-up rule unchanged: nothing at all is admitted any more (admitted/s %v)", again)
						}
						again = nil
					}
					for s, n := range again {
						if n != floorT && !(g.Thr && n >= floorT-1) {
							t.Fatalf("warmed up (period %d s), then the rule set was reloaded with this rule unchanged and a rule of another resource changed: second %d of the continued saturating demand admitted %d, full threshold is floor(%v) (admitted/s %v)", g.P, s, n, g.T, again)
						}
					}
				}
			}
		case 1: // warm up, idle long enough to cool down completely, cold again
			loadWarm(t, g)
			_ = demand(0, warm+2, sat)
			idle := int(2*g.P+2) + rapid.IntRange(0, 5).Draw(t, "extraIdle")
			per := demand(warm+2+idle, 2, sat)
			c.Op("after idle %ds admitted/s %v", idle, per)
			if per[0] > coldBound+slack && !(starveShape && exP9) {
				t.Fatalf("after an idle gap of %d s the first second admitted %d > ceil(T/coldFactor)+1 = %d", idle, per[0], coldBound)
			}
			for s, n := range per {
				if n > floorT+slack {
					t.Fatalf("second %d after idle: admitted %d > floor(T)", s, n)
				}
			}
		case 2: // steady low demand must not be starved forever when T >= 1
			if g.T < 1 {
				g.T = 1 + g.T
				floorT = int(math.Floor(g.T))
				starveShape = g.T/cf <= 1
			}
			loadWarm(t, g)
			d := rapid.IntRange(1, 3).Draw(t, "perSec")
			per := demand(0, int(3*g.P+10), d)
			sum := 0
			for s, n := range per {
				sum += n
				if n > floorT {
					t.Fatalf("second %d: admitted %d > floor(T=%v)", s, n, g.T)
				}
			}
			c.Op("steady %d/s for %ds: admitted total %d", d, len(per), sum)
			if starveShape && exP9 {
				c.Excluded("P9")
			} else if sum == 0 {
				t.Fatalf("threshold %v >= 1, steady demand of %d request/s for %d s: nothing was ever admitted (starved)", g.T, d, len(per))
			}
		case 4: // warm up fully, a few short idle gaps each followed by a single request, then a long idle: cold again
			loadWarm(t, g)
			_ = demand(0, warm+2, sat)
			sec := warm + 2
			rounds := rapid.IntRange(1, 3).Draw(t, "rounds")
			for r := 0; r < rounds; r++ {
				gap := rapid.IntRange(1, int(g.P)+2).Draw(t, "shortGap")
				sec += gap
				one := demand(sec, 1, 1)
				sec++
				c.Op("idle %ds then one request -> %v", gap, one)
			}
			idle := int(2*g.P+2) + rapid.IntRange(0, 3).Draw(t, "extraIdle")
			per := demand(sec+idle, 1, sat)
			c.Op("after idle %ds admitted/s %v", idle, per)
			if per[0] > coldBound && !(starveShape && exP9) {
				t.Fatalf("after short gaps and then an idle gap of %d s the first second admitted %d > ceil(T/coldFactor)+1 = %d (the rule did not cool down)", idle, per[0], coldBound)
			}
		case 3, 5: // arbitrary demand phases: never above the threshold, never unlimited; (5) and cold again after a long idle
			loadWarm(t, g)
			sec := 0
			nph := rapid.IntRange(1, 6).Draw(t, "phases")
			for p := 0; p < nph; p++ {
				kind := rapid.IntRange(0, 2).Draw(t, "phaseKind")
				switch kind {
				case 0:
					gap := rapid.IntRange(1, int(3*g.P)+3).Draw(t, "gap")
					sec += gap
					c.Op("idle %ds", gap)
				default:
					d := rapid.IntRange(1, sat+2).Draw(t, "perSec")
					if kind == 2 {
						d = sat
					}
					secs := rapid.IntRange(1, int(g.P)+3).Draw(t, "secs")
					per := demand(sec, secs, d)
					sec += secs
					c.Op("demand %d/s for %ds -> %v", d, secs, per)
					for s, n := range per {
						if n > floorT {
							t.Fatalf("second %d of a demand phase (%d/s): admitted %d > floor(threshold %v): %v", s, d, n, g.T, per)
						}
					}
				}
			}
			if scenario == 5 {
				idle := int(2*g.P+2) + rapid.IntRange(0, 3).Draw(t, "extraIdle")
				per := demand(sec+idle, 1, sat)
				c.Op("after idle %ds admitted %v", idle, per)
				if per[0] > coldBound && !(starveShape && exP9) {
					t.Fatalf("after arbitrary demand and then an idle gap of %d s (period %d s) the first interval admitted %d > ceil(T/coldFactor)+1 = %d (the rule did not cool down)", idle, g.P, per[0], coldBound)
				}
				if !(starveShape && exP9) { // ... and sustained demand warms it up again, whatever happened before
					again := demand(sec+idle+1, warm+4, sat)
					c.Op("then saturating demand: admitted %v", again)
					for s := warm * 1000 / ivMs; s < len(again); s++ {
						if again[s] != floorT {
							t.Fatalf("after arbitrary demand, an idle gap of %d s and then %d s of saturating demand (period %d s): interval %d admitted %d, full threshold is floor(%v) (admitted %v)", idle, warm, g.P, s, again[s], g.T, again)
						}
					}
				}
			}
		}
		c.ClassIf(starveShape, "T/coldFactor<=1")
		c.ClassIf(truncShape, "token-arithmetic-truncates")
		if starveShape || truncShape {
			c.NonTrivial()
		}
	})
}

// ---- memory-adaptive -------------------------------------------------------------------------------

func TestMemoryAdaptive(t *testing.T) {
	hx.Check(t, hx.N{Quick: 18000, Thorough: 240000}, func(t *rapid.T, c *hx.Case) {
		hx.Reset(hx.Epoch + uint64(rapid.IntRange(0, 999).Draw(t, "t0")))
		total := int64(system_metric.TotalMemorySize)
		if total <= 1024 {
			t.Skip("total memory size unknown")
		}
		high := int64(rapid.IntRange(1, 50).Draw(t, "highThr"))
		low := high + int64(rapid.IntRange(1, 50).Draw(t, "lowDelta"))
		if rapid.IntRange(0, 3).Draw(t, "hugeThresholds") == 0 { // "unlimited"-style thresholds: the interpolation must not overflow
			low = rapid.SampledFrom([]int64{1000000, math.MaxInt32, 1 << 40, math.MaxInt64 / 2, math.MaxInt64}).Draw(t, "lowHuge")
			high = rapid.SampledFrom([]int64{1, 1000, 999999}).Draw(t, "highSmall")
		}
		lowMark := int64(rapid.Int64Range(1, total-2).Draw(t, "lowMark"))
		if rapid.Bool().Draw(t, "smallMarks") {
			lowMark = int64(rapid.IntRange(1, 1000).Draw(t, "lowMarkSmall"))
		}
		highMark := lowMark + 1 + rapid.Int64Range(0, total-lowMark-1).Draw(t, "span")
		if rapid.Bool().Draw(t, "narrow") {
			highMark = lowMark + int64(rapid.IntRange(1, 1000).Draw(t, "narrowSpan"))
			if highMark > total {
				highMark = total
			}
		}
		r := &flow.Rule{Resource: "m", TokenCalculateStrategy: flow.MemoryAdaptive, ControlBehavior: flow.Reject,
			LowMemUsageThreshold: low, HighMemUsageThreshold: high, MemLowWaterMarkBytes: lowMark, MemHighWaterMarkBytes: highMark}
		// the plain Threshold field plays no part in a memory-adaptive rule; it may carry anything (a rule converted from a
		// direct one keeps its old value)
		r.Threshold = rapid.SampledFrom([]float64{0, 0, 1, float64(high) / 2, float64(high), (float64(high) + float64(low)) / 2, float64(low) + 5}).Draw(t, "strayThreshold")
		c.ClassIf(r.Threshold > 0, "memory-adaptive-rule-with-a-stray-plain-threshold")
		if err := flow.IsValidRule(r); err != nil {
			t.Fatalf("generator produced an invalid rule: %v", err)
		}
		c.Op("lowThr=%d highThr=%d lowMark=%d highMark=%d strayThreshold=%v", low, high, lowMark, highMark, r.Threshold)
		calc := flow.NewMemoryAdaptiveTrafficShapingCalculator(nil, r)
		// memory readings: below, at, around and above the marks, and a monotone sweep in between
		var mems []int64
		mems = append(mems, 0, lowMark-1, lowMark, lowMark+1, highMark-1, highMark, highMark+1, total)
		for i := 0; i < 6; i++ {
			mems = append(mems, rapid.Int64Range(lowMark, highMark).Draw(t, "mem"))
		}
		for i := int64(1); i < 8; i++ { // evenly spread readings: large offsets from the low mark
			mems = append(mems, lowMark+(highMark-lowMark)/8*i)
		}
		between := false
		prevMem, prevThr := int64(-1), math.Inf(1)
		sortInt64(mems)
		for _, mem := range mems {
			if mem < 0 {
				continue
			}
			system_metric.SetSystemMemoryUsage(mem)
			thr := calc.CalculateAllowedTokens(1, 0)
			if math.IsNaN(thr) || math.IsInf(thr, 0) || thr < 0 {
				t.Fatalf("mem=%d: effective threshold %v is not a finite non-negative number", mem, thr)
			}
			switch {
			case mem <= lowMark:
				if thr != float64(low) {
					t.Fatalf("mem=%d <= low mark %d: threshold %v, want low-memory threshold %d", mem, lowMark, thr, low)
				}
			case mem >= highMark:
				if thr != float64(high) {
					t.Fatalf("mem=%d >= high mark %d: threshold %v, want high-memory threshold %d", mem, highMark, thr, high)
				}
			default:
				between = true
				if thr > float64(low) || thr < float64(high) {
					t.Fatalf("mem=%d between the marks: threshold %v outside [%d,%d]", mem, thr, high, low)
				}
			}
			if mem >= prevMem && thr > prevThr {
				t.Fatalf("threshold is not non-increasing in memory: mem %d -> %v, mem %d -> %v", prevMem, prevThr, mem, thr)
			}
			prevMem, prevThr = mem, thr
		}
		// "not retrieved" reading
		system_metric.SetSystemMemoryUsage(system_metric.NotRetrievedMemoryValue)
		if thr := calc.CalculateAllowedTokens(1, 0); math.IsNaN(thr) || math.IsInf(thr, 0) || thr < 0 {
			t.Fatalf("memory not retrieved: threshold %v", thr)
		}
		// through api.Entry: admitted per window = floor(threshold), both directions. In half of the cases the rule arrives as a
		// modification of a predecessor that differs from it in exactly ONE of the four adaptive fields.
		if pre := rapid.IntRange(0, 7).Draw(t, "predecessorDiffersIn"); pre < 4 {
			p := *r
			switch pre {
			case 0:
				p.LowMemUsageThreshold++
			case 1:
				if p.HighMemUsageThreshold > 1 {
					p.HighMemUsageThreshold--
				} else {
					p.LowMemUsageThreshold++
				}
			case 2:
				if p.MemLowWaterMarkBytes > 1 {
					p.MemLowWaterMarkBytes--
				} else {
					p.LowMemUsageThreshold++
				}
			case 3:
				if p.MemHighWaterMarkBytes < total {
					p.MemHighWaterMarkBytes++
				} else if p.MemHighWaterMarkBytes-1 > p.MemLowWaterMarkBytes {
					p.MemHighWaterMarkBytes--
				} else {
					p.LowMemUsageThreshold++
				}
			}
			if flow.IsValidRule(&p) == nil {
				if _, err := flow.LoadRules([]*flow.Rule{&p}); err != nil {
					t.Fatal(err)
				}
				c.Class("rule-arrives-as-a-one-field-modification")
			}
		}
		if _, err := flow.LoadRules([]*flow.Rule{r}); err != nil {
			t.Fatal(err)
		}
		if len(flow.GetRulesOfResource("m")) != 1 {
			t.Fatalf("valid memory-adaptive rule not accepted")
		}
		mem := mems[rapid.IntRange(0, len(mems)-1).Draw(t, "entryMem")]
		if mem < 0 {
			mem = 0
		}
		system_metric.SetSystemMemoryUsage(mem)
		if thr := calc.CalculateAllowedTokens(1, 0); thr > 300 {
			c.Class("huge-thresholds")
			if between {
				c.NonTrivial()
			}
			return // admitting that many requests one by one is pointless; the calculator clauses above cover it
		}
		want := int(math.Floor(calc.CalculateAllowedTokens(1, 0)))
		got := 0
		for i := 0; i < want+5; i++ {
			if e, _ := sentinel.Entry("m"); e != nil {
				got++
				e.Exit()
			}
		}
		c.Op("mem=%d: admitted %d in one window (threshold floor %d)", mem, got, want)
		if got != want {
			t.Fatalf("mem=%d: %d requests admitted in one statistic window, effective threshold allows exactly %d", mem, got, want)
		}
		c.ClassIf(between, "reading-between-marks")
		if between {
			c.NonTrivial()
		}
	})
}

func sortInt64(a []int64) {
	for i := 1; i < len(a); i++ {
		for j := i; j > 0 && a[j] < a[j-1]; j-- {
			a[j], a[j-1] = a[j-1], a[j]
		}
	}
}

// ---- findings ---------------------------------------------------------------------------------------

// P9b (repaired): Threshold 0.5, period 1, cold factor 3 made the threshold NaN = unlimited admission.
func TestP_RegressP9NaN(t *testing.T) {
	hx.Plain(t, func(c *hx.Case) {
		for _, g := range []cfg{{T: 0.5, P: 1, CF: 3}, {T: 0, P: 5, CF: 0}, {T: 1, P: 1, CF: 10}} {
			hx.Reset(hx.Epoch)
			flow.LoadRules([]*flow.Rule{{Resource: "w", Threshold: g.T, TokenCalculateStrategy: flow.WarmUp, ControlBehavior: flow.Reject, WarmUpPeriodSec: g.P, WarmUpColdFactor: g.CF}})
			per := demand(0, 3, 10)
			c.Op("T=%v P=%d CF=%d admitted/s %v", g.T, g.P, g.CF, per)
			for _, n := range per {
				if n > int(math.Floor(g.T)) {
					t.Fatalf("warm-up rule T=%v period=%d coldFactor=%d admitted %v per second (threshold NaN?)", g.T, g.P, g.CF, per)
				}
			}
		}
		c.NonTrivial()
	})
}

// P27 (repaired): a token balance of exactly warningToken was never refilled: the rule stayed hot for ever.
func TestP_RegressP27(t *testing.T) {
	hx.Plain(t, func(c *hx.Case) {
		hx.Reset(hx.Epoch)
		flow.LoadRules([]*flow.Rule{{Resource: "w", Threshold: 10, TokenCalculateStrategy: flow.WarmUp, ControlBehavior: flow.Reject, WarmUpPeriodSec: 4, WarmUpColdFactor: 5}})
		ramp := demand(0, 6, 4)
		per := demand(6+10, 1, 30)
		c.Op("T=10 P=4 CF=5: 4 req/s for 6 s admitted %v; idle 10 s; then 30 req in one second admitted %v", ramp, per)
		if per[0] > 3 {
			t.Fatalf("warm-up rule T=10 period=4 s coldFactor=5: after 4 req/s for 6 s and 10 s idle the first second admitted %d, cold rate is T/coldFactor = 2 (balance stuck at the warning line)", per[0])
		}
		c.NonTrivial()
	})
}

// P28 (known): a warm-up rule with a statistic interval above one second never leaves the cold rate.
func TestP_KnownP28(t *testing.T) {
	hx.Plain(t, func(c *hx.Case) {
		hx.Reset(hx.Epoch)
		flow.LoadRules([]*flow.Rule{{Resource: "w", Threshold: 10, TokenCalculateStrategy: flow.WarmUp, ControlBehavior: flow.Reject, WarmUpPeriodSec: 2, WarmUpColdFactor: 3, StatIntervalInMs: 2000}})
		ivMs = 2000
		per := demand(0, 60, 30)
		ivMs = 1000
		c.Op("T=10 per 2000 ms, P=2 CF=3, 30 requests per interval for 60 s: admitted per interval %v", per)
		hx.Witness(t, "C11", "P28", "warm-up rule with StatIntervalInMs > 1000 (Threshold 10 per 2000 ms, period 2 s, cold factor 3): under saturating demand for 60 s the admitted count stays at the cold rate (3 per interval) and never reaches the threshold (the bucket is refilled with Threshold tokens per second but drained with at most Threshold per interval)", per[len(per)-1] < 10)
		c.NonTrivial()
	})
}

// P9 (known): T/coldFactor < 1 with T >= 1 starves a steady demand forever.
func TestP_KnownP9(t *testing.T) {
	hx.Plain(t, func(c *hx.Case) {
		hx.Reset(hx.Epoch)
		flow.LoadRules([]*flow.Rule{{Resource: "w", Threshold: 2, TokenCalculateStrategy: flow.WarmUp, ControlBehavior: flow.Reject, WarmUpPeriodSec: 3, WarmUpColdFactor: 3}})
		per := demand(0, 3*3+10, 2)
		sum := 0
		for _, n := range per {
			sum += n
		}
		c.Op("T=2 P=3 CF=3, 2 req/s for 19 s: admitted %v", per)
		hx.Witness(t, "C11", "P9", "warm-up rule with Threshold/ColdFactor < 1 (T=2, period 3 s, cold factor 3): steady demand of 2 req/s is never admitted (cold threshold T/cf < 1 never admits, so tokens never drain)", sum == 0)
		c.NonTrivial()
	})
}

// TestAssociatedWarmUp: a warm-up rule on resource w that meters the traffic of an associated resource. The envelope is
// about the associated resource's admitted tokens: w is never admitted while the associated resource has passed T or more
// in the current statistic window (effective threshold <= T), and is always admitted while it has passed clearly fewer
// than T/coldFactor in the last two seconds (effective threshold >= T/coldFactor). The rule is loaded before or after the
// associated resource was first used.
func TestAssociatedWarmUp(t *testing.T) {
	hx.Check(t, hx.N{Quick: 3000, Thorough: 30000}, func(t *rapid.T, c *hx.Case) {
		hx.Reset(hx.Epoch + uint64(rapid.IntRange(0, 999).Draw(t, "t0")))
		T := rapid.SampledFrom([]float64{1, 2, 3, 5, 10, 20}).Draw(t, "T")
		cf := uint32(rapid.SampledFrom([]int{0, 2, 3, 5}).Draw(t, "CF"))
		eff := float64(cf)
		if cf == 0 {
			eff = 3
		}
		pass := func(res string) bool {
			e, _ := sentinel.Entry(res)
			if e != nil {
				e.Exit()
			}
			return e != nil
		}
		usedBefore := rapid.Bool().Draw(t, "associatedResourceUsedBeforeTheLoad")
		var refPasses []uint64 // instants of passes on the associated resource
		if usedBefore {
			pass("ref")
			refPasses = append(refPasses, hx.C.Ms())
		}
		r := &flow.Rule{Resource: "w", Threshold: T, TokenCalculateStrategy: flow.WarmUp, ControlBehavior: flow.Reject, WarmUpPeriodSec: uint32(rapid.IntRange(1, 10).Draw(t, "P")), WarmUpColdFactor: cf,
			RelationStrategy: flow.AssociatedResource, RefResource: "ref"}
		if _, err := flow.LoadRules([]*flow.Rule{r}); err != nil || len(flow.GetRulesOfResource("w")) != 1 {
			t.Fatalf("LoadRules: %v", err)
		}
		c.Op("T=%v coldFactor=%d associated resource used before the load=%v", T, cf, usedBefore)
		sawBlock, sawPass := false, false
		for i, n := 0, rapid.IntRange(1, 25).Draw(t, "steps"); i < n; i++ {
			hx.C.AddMs(uint64(rapid.SampledFrom([]int{0, 1, 100, 499, 500, 1000, 1500, 5000}).Draw(t, "dt")))
			k := rapid.IntRange(0, int(2*T)+2).Draw(t, "associatedTraffic")
			for j := 0; j < k; j++ {
				if !pass("ref") {
					t.Fatalf("the associated resource carries no rule but was blocked")
				}
				refPasses = append(refPasses, hx.C.Ms())
			}
			now := hx.C.Ms()
			recent := 0
			for _, p := range refPasses {
				if p+2000 > now {
					recent++
				}
			}
			got := pass("w")
			c.Op("+%dms: %d on the associated resource at this instant (%d in the last 2 s), w admitted=%v", now-hx.Epoch, k, recent, got)
			if got && float64(k)+1 > T {
				t.Fatalf("w admitted although its associated resource has passed %d at this very instant and the rule's threshold is %v: the admitted rate the warm-up rule meters exceeds the configured threshold", k, T)
			}
			if !got && float64(recent)+1 <= T/eff-0.5 {
				t.Fatalf("w blocked although its associated resource passed only %d in the last 2 s: the effective threshold is below threshold/coldFactor = %v", recent, T/eff)
			}
			if got {
				sawPass = true
			} else {
				sawBlock = true
			}
		}
		if sawBlock && sawPass {
			c.NonTrivial()
		}
		c.ClassIf(!usedBefore, "rule-loaded-before-the-associated-resource-was-ever-used")
	})
}
