// C09: sliding-window counters stay sound under concurrent writers and rollover.
package c09

import (
	"fmt"
	"os"
	"runtime"
	"strconv"
	"sync"
	"sync/atomic"
	"testing"
	"time"

	"github.com/alibaba/sentinel-golang/core/base"
	sbase "github.com/alibaba/sentinel-golang/core/stat/base"
	"pgregory.net/rapid"

	"verif/harness/hx"
	"verif/harness/sched"
)

func TestMain(m *testing.M) { hx.Main(m, "C09") }

const bl = uint64(10)

const (
	kAdd    = iota // AddCount(pass, amt)
	kRt            // AddCount(rt, amt)
	kConc          // UpdateConcurrency
	kCount         // CountWithTime(now, pass)
	kValues        // Values(now)
	kMaxConc       // MaxConcurrency()
)

var kindName = []string{"add", "rt", "conc", "count", "values", "maxconc"}

type program struct {
	onePreempt bool // systematic exploration with one preemption even in the thorough tier
	twoPreempt bool // small program: two preemptions even in the quick tier
	n          uint32
	phase      uint64 // start instant = base + phase
	pre        int    // sequential pre-fill adds
	preGap     uint64 // clock advance after the pre-fill
	tasks      [][]int
}

type op struct {
	g      int
	kind   int
	ts     uint64
	amt    int64
	c0, c1 uint64
	s0, s1 int
	result int64
	starts []uint64
}

type reset struct{ g, s0, s1 int }

// execute runs one schedule of p; choose picks the next actor (tasks 0..k-1, k = clock tick).
// It returns a non-empty string when an oracle clause is violated.
func execute(c *hx.Case, p program, choose func(enabled []int, last int) int, tick func() uint64, maxTicks int) (verdict string, overlapSeen bool) {
	s := sched.New()
	defer s.Close()
	iv := uint64(p.n) * bl
	base0 := hx.Epoch
	hx.C.SetMs(base0 + p.phase)
	arr := sbase.NewBucketLeapArray(p.n, uint32(iv))
	var ops []*op
	for i := 0; i < p.pre; i++ {
		arr.AddCount(base.MetricEventPass, 1)
		ops = append(ops, &op{g: -1, kind: kAdd, ts: hx.C.Ms(), amt: 1, c0: hx.C.Ms(), c1: hx.C.Ms(), s0: -1, s1: -1})
		arr.UpdateConcurrency(9) // the pre-filled bucket also carries a peak concurrency
		ops = append(ops, &op{g: -1, kind: kConc, ts: hx.C.Ms(), amt: 9, c0: hx.C.Ms(), c1: hx.C.Ms(), s0: -1, s1: -1})
	}
	hx.C.AddMs(p.preGap)
	stepNo := 0
	var tasks []*sched.Task
	for g := range p.tasks {
		g := g
		tasks = append(tasks, s.Spawn(func() {
			for _, k := range p.tasks[g] {
				o := &op{g: g, kind: k, c0: hx.C.Ms(), s0: stepNo, ts: hx.C.Ms()}
				switch k {
				case kAdd:
					o.amt = int64(1 + g)
					arr.AddCount(base.MetricEventPass, o.amt)
				case kRt:
					o.amt = int64(3 + g)
					arr.AddCount(base.MetricEventRt, o.amt)
				case kConc:
					o.amt = int64(2 + g)
					arr.UpdateConcurrency(int32(2 + g))
				case kMaxConc:
					o.result = int64(arr.MaxConcurrency())
				case kCount:
					o.result = arr.CountWithTime(o.ts, base.MetricEventPass)
				case kValues:
					for _, bw := range arr.Values(o.ts) {
						o.starts = append(o.starts, atomic.LoadUint64(&bw.BucketStart))
					}
				}
				o.c1 = hx.C.Ms()
				o.s1 = stepNo
				ops = append(ops, o)
				s.Yield("user.opdone")
			}
		}))
	}
	var resets []reset
	inReset := map[int]int{}
	didReset := map[int]bool{}
	ticks := 0
	last := -1
	k := len(tasks)
	step := func(tk *sched.Task) {
		prev := tk.Point
		stepNo++
		s.Step(tk)
		if prev == "la.trylock" {
			inReset[tk.ID] = stepNo
			didReset[tk.ID] = false
		}
		if prev == "bla.reset.start" || prev == "mb.reset.counter" {
			didReset[tk.ID] = true
		}
		if prev == "la.unlock" && didReset[tk.ID] {
			resets = append(resets, reset{tk.ID, inReset[tk.ID], stepNo})
		}
	}
	for stepNo < 600 {
		var enabled []int
		for i, tk := range tasks {
			if !tk.Done {
				enabled = append(enabled, i)
			}
		}
		if len(enabled) == 0 {
			break
		}
		if ticks < maxTicks {
			enabled = append(enabled, k)
		}
		a := choose(enabled, last)
		last = a
		if a == k {
			d := tick()
			hx.C.AddMs(d)
			ticks++
			c.Op("tick %d", d)
			continue
		}
		step(tasks[a])
		c.Op("g%d@%s", a, tasks[a].Point)
	}
	// (d) termination under fair completion
	for guard := 0; ; guard++ {
		live := s.Live()
		if len(live) == 0 {
			break
		}
		if guard > 5000 {
			return "(d) a recorder/reader did not terminate under a fair completion schedule", false
		}
		for _, tk := range live {
			step(tk)
		}
	}
	for _, tk := range tasks {
		if tk.Panic != nil {
			return fmt.Sprintf("task %d panicked: %v", tk.ID, tk.Panic), false
		}
	}
	win := func(now uint64) (lo, hi uint64) { st := now - now%bl; hi = st + bl; lo = hi - iv; return }
	stalled := func(o *op) bool { return o.c1-o.c0 >= bl }
	anyStalledAdd, anyStalledConc := false, false
	for _, o := range ops {
		if o.kind == kAdd && stalled(o) {
			anyStalledAdd = true
		}
		if o.kind == kConc && stalled(o) {
			anyStalledConc = true
		}
	}
	overlap := false // some recorder overlapped (in steps) a reset performed by another task
	for _, o := range ops {
		if o.g < 0 {
			continue
		}
		for _, r := range resets {
			if r.g != o.g && o.s0 <= r.s1 && r.s0 <= o.s1 {
				overlapSeen = true
				if o.kind == kAdd {
					overlap = true
				}
			}
		}
	}
	dump := func() string {
		out := fmt.Sprintf("n=%d phase=%d pre=%d preGap=%d resets=%v;", p.n, p.phase, p.pre, p.preGap, resets)
		for _, q := range ops {
			out += fmt.Sprintf(" [g%d %s ts=+%d amt=%d clk +%d..+%d steps %d..%d res=%d]", q.g, kindName[q.kind], q.ts-base0, q.amt, q.c0-base0, q.c1-base0, q.s0, q.s1, q.result)
		}
		return out
	}
	// (a) reads never exceed what was recorded for the window (no duplication, invention, expired data)
	for _, o := range ops {
		if stalled(o) || anyStalledAdd {
			continue
		}
		// the clock may tick (by less than a bucket) while the read runs: a read is allowed to be
		// linearised at any instant between its start and its end, so its window is the union
		lo, _ := win(o.c0)
		_, hi := win(o.c1)
		if o.kind == kCount {
			var upper int64
			for _, a := range ops {
				if a.kind != kAdd || a.s0 > o.s1 {
					continue
				}
				if a.ts >= lo && a.ts < hi {
					upper += a.amt
					continue
				}
				if a.ts < lo { // still in flight when another task's reset began: may surface in the new bucket
					for _, r := range resets {
						if r.g != a.g && a.s0 <= r.s0 && r.s0 <= a.s1 {
							upper += a.amt
							break
						}
					}
				}
			}
			if o.result > upper {
				return fmt.Sprintf("(a) reader g%d at +%d (not stalled) got %d, only %d recorded for its window [+%d,+%d): %s", o.g, o.ts-base0, o.result, upper, int64(lo)-int64(base0), hi-base0, dump()), overlapSeen
			}
		}
		if o.kind == kMaxConc && !anyStalledConc {
			var upper int64
			for _, a := range ops {
				if a.kind != kConc || a.s0 > o.s1 {
					continue
				}
				in := a.ts >= lo && a.ts < hi
				if !in && a.ts < lo { // still in flight when another task's reset began: may surface in the new bucket
					for _, r := range resets {
						if r.g != a.g && a.s0 <= r.s0 && r.s0 <= a.s1 {
							in = true
							break
						}
					}
				}
				if in && a.amt > upper {
					upper = a.amt
				}
			}
			if o.result > upper {
				return fmt.Sprintf("(a) MaxConcurrency read by g%d at +%d (not stalled) is %d, the largest value recorded for its window [+%d,+%d) is %d: %s", o.g, o.ts-base0, o.result, int64(lo)-int64(base0), hi-base0, upper, dump()), overlapSeen
			}
		}
		if o.kind == kValues {
			for _, st := range o.starts {
				if st < lo || st >= hi {
					return fmt.Sprintf("(a) Values at +%d returned bucket start +%d outside its window: %s", o.ts-base0, int64(st)-int64(base0), dump()), overlapSeen
				}
			}
		}
	}
	now := hx.C.Ms()
	// (c) exactness at quiescence when no recorder overlapped a rollover by another task
	if !anyStalledAdd && !overlap {
		lo, hi := win(now)
		var want int64
		for _, a := range ops {
			if a.kind == kAdd && a.ts >= lo && a.ts < hi {
				want += a.amt
			}
		}
		if got := arr.CountWithTime(now, base.MetricEventPass); got != want {
			return fmt.Sprintf("(c) quiescent sum %d, recorded in the window %d: %s", got, want, dump()), overlapSeen
		}
	}
	// (b) more than one bucket: nothing is credited to a bucket other than the one its timestamp selects
	if !anyStalledAdd && p.n > 1 {
		for _, bw := range arr.Values(now) {
			st := atomic.LoadUint64(&bw.BucketStart)
			var rec int64
			for _, a := range ops {
				if a.kind == kAdd && a.ts >= st && a.ts < st+bl {
					rec += a.amt
				}
			}
			if got := bw.Value.Load().(*sbase.MetricBucket).Get(base.MetricEventPass); got > rec {
				return fmt.Sprintf("(b) bucket +%d holds %d, recorded for it %d: %s", int64(st)-int64(base0), got, rec, dump()), overlapSeen
			}
		}
	}
	// (e) expired data stays invisible: every operation has returned; one whole interval later (and again one later) nothing
	// recorded so far belongs to the window, whatever bucket a straggling recorder landed in
	for k := 0; k < 2; k++ {
		hx.C.AddMs(iv)
		if got := arr.CountWithTime(hx.C.Ms(), base.MetricEventPass); got != 0 {
			return fmt.Sprintf("(e) %d whole interval(s) after every operation returned a read reports %d: data of an expired bucket is visible: %s", k+1, got, dump()), overlapSeen
		}
	}
	return "", overlapSeen
}

func drawProgram(t *rapid.T) program {
	p := program{n: uint32(rapid.IntRange(1, 3).Draw(t, "n"))}
	iv := uint64(p.n) * bl
	p.phase = uint64(rapid.SampledFrom([]int{0, 5, 8, 9}).Draw(t, "phase"))
	p.pre = rapid.IntRange(0, 2).Draw(t, "prefill")
	p.preGap = uint64(rapid.SampledFrom([]uint64{0, 1, bl, iv - 1, iv, iv + 1}).Draw(t, "preGap"))
	ng := rapid.IntRange(2, 3).Draw(t, "tasks")
	for g := 0; g < ng; g++ {
		nops := rapid.IntRange(1, 2).Draw(t, "nops")
		var ks []int
		for i := 0; i < nops; i++ {
			ks = append(ks, rapid.SampledFrom([]int{kAdd, kAdd, kAdd, kCount, kCount, kCount, kValues, kRt, kConc, kConc, kMaxConc}).Draw(t, "kind"))
		}
		p.tasks = append(p.tasks, ks)
	}
	return p
}

func TestRandomSchedules(t *testing.T) {
	hx.Check(t, hx.N{Quick: 30000, Thorough: 480000}, func(t *rapid.T, c *hx.Case) {
		p := drawProgram(t)
		iv := uint64(p.n) * bl
		c.Op("program n=%d phase=%d pre=%d preGap=%d tasks=%v", p.n, p.phase, p.pre, p.preGap, p.tasks)
		verdict, overlap := execute(c, p,
			func(enabled []int, last int) int { return enabled[rapid.IntRange(0, len(enabled)-1).Draw(t, "choice")] },
			func() uint64 { return rapid.SampledFrom([]uint64{1, 1, bl - 1, bl, iv}).Draw(t, "tick") }, 4)
		if verdict != "" {
			t.Fatalf("%s", verdict)
		}
		c.ClassIf(overlap, "op-overlaps-reset-by-another-task")
		if overlap {
			c.NonTrivial()
		}
	})
}

// basePrograms: the bounded space enumerated systematically.
func basePrograms() []program {
	var ps []program
	for _, n := range []uint32{1, 2} {
		iv := uint64(n) * bl
		for _, tasks := range [][][]int{
			{{kAdd}, {kCount}},
			{{kCount}, {kCount}},
			{{kAdd}, {kAdd}, {kCount}},
			{{kAdd, kCount}, {kCount}},
			{{kCount, kAdd}, {kAdd}},
			{{kAdd}, {kValues}, {kCount}},
		} {
			// one earlier add, then exactly one interval later: the tasks race on the rollover
			ps = append(ps, program{n: n, phase: 9, pre: 1, preGap: iv - 9, tasks: tasks})
		}
		// the tasks start in the last millisecond of a bucket and the single 1 ms tick of the schedule moves the clock into
		// the next bucket: an operation that has already chosen its bucket is overtaken by the rollover
		for _, tasks := range [][][]int{
			{{kAdd}, {kAdd}, {kCount}},
			{{kAdd}, {kCount}, {kCount}},
			{{kAdd, kCount}, {kAdd}},
		} {
			ps = append(ps, program{n: n, phase: 9, pre: 1, preGap: 0, tasks: tasks, onePreempt: true})
			ps = append(ps, program{n: n, phase: 9, pre: 1, preGap: iv, tasks: tasks, onePreempt: true})
		}
	}
	// one recorder that has chosen its bucket in the last millisecond before a boundary, one reader that rolls the bucket
	// over after the tick: small enough for two preemptions in both tiers
	for _, n := range []uint32{1, 2} {
		for _, pre := range []int{0, 1} {
			ps = append(ps, program{n: n, phase: 9, pre: pre, preGap: 0, tasks: [][]int{{kAdd}, {kCount}}, twoPreempt: true})
		}
	}
	// a slot that kept its data through a whole idle interval, a recorder in the last millisecond before the boundary and a
	// reader of the peak concurrency just after it (two preemptions)
	ps = append(ps, program{n: 2, phase: 9, pre: 1, preGap: 2 * bl, tasks: [][]int{{kAdd}, {kMaxConc}}, twoPreempt: true})
	// an array still in its first lap (three buckets, created one bucket after an interval boundary, nothing pre-filled):
	// slots in front of the creation slot have never been written; readers on both sides of a tick overlap
	for _, tasks := range [][][]int{
		{{kAdd, kCount}, {kCount}},
		{{kAdd}, {kCount}, {kCount}},
		{{kAdd, kCount}, {kCount}, {kAdd}},
	} {
		ps = append(ps, program{n: 3, phase: 0, pre: 0, preGap: bl, tasks: tasks})
	}
	return ps
}

func TestSystematicSchedules(t *testing.T) {
	maxPre := 1
	progs := basePrograms()
	if hx.Thorough() {
		maxPre = 2
	}
	total, cut := 0, 0
	shard, nshards := 0, 1
	if v, err := strconv.Atoi(os.Getenv("VERIF_NSHARDS")); err == nil && v > 1 {
		nshards = v
		shard, _ = strconv.Atoi(os.Getenv("VERIF_SHARD"))
	}
	for pi, p := range progs {
		if pi%nshards != shard {
			continue // the enumeration is split over processes by program index
		}
		mp := maxPre
		if p.onePreempt { // the boundary-crossing programs are explored with one preemption in both tiers
			mp = 1
		}
		if p.twoPreempt {
			mp = 2
		}
		ex := &sched.Explorer{MaxPreempt: mp}
		perProgram := 0
		for {
			var verdict string
			var overlap bool
			hx.Plain(t, func(c *hx.Case) {
				c.Op("program#%d n=%d tasks=%v maxPreempt=%d", pi, p.n, p.tasks, maxPre)
				verdict, overlap = execute(c, p, ex.Choose, func() uint64 { return 1 }, 1)
				c.ClassIf(overlap, "op-overlaps-reset-by-another-task")
				if overlap {
					c.NonTrivial()
				}
			})
			total++
			perProgram++
			if verdict != "" {
				t.Fatalf("program#%d schedule %v: %s", pi, ex.Trace(), verdict)
			}
			if !ex.Next() {
				break
			}
			if perProgram >= 150000 { // bound the thorough tier: the enumeration of this program is cut (in enumeration order, deterministic)
				cut++
				break
			}
		}
	}
	if cut > 0 {
		hx.Plain(t, func(c *hx.Case) {
			c.Op("%d program(s) cut at 150000 schedules", cut)
			c.Count("systematic_programs_cut_at_150000_schedules", int64(cut))
		})
	}
	t.Logf("systematic: %d schedules of %d programs with <= %d preemptions (exhaustive within the bound)", total, len(progs), maxPre)
}

// TestStress: real goroutines, real scheduler; only clause (a) at the end and termination.
func TestStress(t *testing.T) {
	hx.Check(t, hx.N{Quick: 150, Thorough: 2400}, func(t *rapid.T, c *hx.Case) {
		old := runtime.GOMAXPROCS(16)
		defer runtime.GOMAXPROCS(old)
		n := uint32(rapid.IntRange(1, 4).Draw(t, "n"))
		iv := uint64(n) * bl
		hx.C.SetMs(hx.Epoch + uint64(rapid.IntRange(0, 9).Draw(t, "phase")))
		arr := sbase.NewBucketLeapArray(n, uint32(iv))
		W := rapid.IntRange(2, 12).Draw(t, "writers")
		R := rapid.IntRange(1, 4).Draw(t, "readers")
		iters := rapid.IntRange(100, 2000).Draw(t, "iters")
		c.Op("n=%d writers=%d readers=%d iters=%d", n, W, R, iters)
		var total int64
		var stop int32
		var wg sync.WaitGroup
		fail := make(chan string, 64)
		for w := 0; w < W; w++ {
			wg.Add(1)
			go func() {
				defer wg.Done()
				for i := 0; i < iters; i++ {
					arr.AddCount(base.MetricEventPass, 1)
					atomic.AddInt64(&total, 1)
				}
			}()
		}
		for r := 0; r < R; r++ {
			wg.Add(1)
			go func() {
				defer wg.Done()
				for atomic.LoadInt32(&stop) == 0 {
					got := arr.Count(base.MetricEventPass)
					// everything ever recorded bounds any read (invented/duplicated updates would exceed it)
					if all := atomic.LoadInt64(&total) + int64(W); got > all {
						select {
						case fail <- fmt.Sprintf("read %d > %d ever recorded", got, all):
						default:
						}
					}
					runtime.Gosched()
				}
			}()
		}
		done := make(chan struct{})
		go func() { // ticker: the virtual clock moves in small steps while the workers run
			for i := 0; i < 200; i++ {
				hx.C.AddMs(1)
				time.Sleep(20 * time.Microsecond)
			}
			close(done)
		}()
		<-done
		finished := make(chan struct{})
		go func() { wg.Wait(); close(finished) }()
		go func() {
			for w := 0; w < 1; w++ {
			}
		}()
		// writers finish on their own; then stop the readers
		wdone := make(chan struct{})
		go func() {
			for atomic.LoadInt64(&total) < int64(W*iters) {
				time.Sleep(100 * time.Microsecond)
			}
			atomic.StoreInt32(&stop, 1)
			close(wdone)
		}()
		select {
		case <-finished:
		case <-time.After(60 * time.Second):
			fmt.Println("INCONCLUSIVE: C09 stress watchdog expired")
			t.Fatalf("watchdog: workers did not terminate within 60 s")
		}
		<-wdone
		select {
		case m := <-fail:
			t.Fatalf("%s", m)
		default:
		}
		if got, all := arr.Count(base.MetricEventPass), int64(W*iters); got > all {
			t.Fatalf("final read %d > %d recorded", got, all)
		}
		c.NonTrivial()
	})
}
