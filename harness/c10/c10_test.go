// C10: throttling flow rules pace admitted requests and bound queueing.
package c10

import (
	"fmt"
	"math"
	"sort"
	"testing"
	"time"

	sentinel "github.com/alibaba/sentinel-golang/api"
	"github.com/alibaba/sentinel-golang/core/base"
	"github.com/alibaba/sentinel-golang/core/config"
	"github.com/alibaba/sentinel-golang/core/flow"
	"github.com/alibaba/sentinel-golang/core/system_metric"
	"pgregory.net/rapid"

	"verif/harness/hx"
	"verif/harness/sched"
)

func TestMain(m *testing.M) { hx.Main(m, "C10") }

var thresholds = []float64{0, 0.5, 1, 2, 2.5, 3, 7, 10, 100, 1000}
var intervals = []int{0, 100, 500, 1000, 3000, 10000}
var queues = []int{0, 1, 10, 100, 500, 2000}

func need(b uint32, T float64, intervalMs int) int64 {
	iv := int64(intervalMs)
	if iv == 0 {
		iv = 1000
	}
	return int64(math.Ceil(float64(b) / T * float64(iv*1e6)))
}

var loaded *flow.Rule // the rule of the running case, as submitted

// memFlip: for a memory-adaptive pacing rule, the memory reading and the effective threshold on the OTHER side of the water
// marks (0 = the rule of the running case is not memory-adaptive)
var memFlip struct {
	mem int64
	T   float64
}

func loadRule(t *rapid.T, T float64, ivMs, qMs int) {
	memFlip.mem, memFlip.T = 0, 0
	r := &flow.Rule{Resource: "t", TokenCalculateStrategy: flow.Direct, ControlBehavior: flow.Throttling, Threshold: T,
		StatIntervalInMs: uint32(ivMs), MaxQueueingTimeMs: uint32(qMs)}
	// the same pacing threshold expressed through the memory-adaptive strategy: with the memory reading pinned below the
	// low (above the high) water mark the effective threshold is the configured low-memory (high-memory) threshold
	if T >= 1 && T == math.Floor(T) {
		switch rapid.IntRange(0, 3).Draw(t, "thresholdVia") {
		case 1:
			r.TokenCalculateStrategy, r.Threshold = flow.MemoryAdaptive, 0
			r.LowMemUsageThreshold, r.HighMemUsageThreshold, r.MemLowWaterMarkBytes, r.MemHighWaterMarkBytes = int64(T), int64(T)-1, 1000, 2000
			if r.HighMemUsageThreshold < 1 {
				r.LowMemUsageThreshold, r.HighMemUsageThreshold = int64(T), int64(T) // invalid (low must exceed high): fall back
				r.TokenCalculateStrategy, r.Threshold = flow.Direct, T
			} else {
				system_metric.SetSystemMemoryUsage(500)
				memFlip.mem, memFlip.T = 5000, T-1
			}
		case 2:
			r.TokenCalculateStrategy, r.Threshold = flow.MemoryAdaptive, 0
			r.LowMemUsageThreshold, r.HighMemUsageThreshold, r.MemLowWaterMarkBytes, r.MemHighWaterMarkBytes = int64(T)+5, int64(T), 1000, 2000
			system_metric.SetSystemMemoryUsage(5000)
			memFlip.mem, memFlip.T = 500, T+5
		}
	}
	cp := *r
	loaded = &cp
	if _, err := flow.LoadRules([]*flow.Rule{r}); err != nil {
		t.Fatalf("LoadRules: %v", err)
	}
	if len(flow.GetRulesOfResource("t")) != 1 {
		t.Fatalf("throttling rule T=%v I=%d Q=%d was not accepted", T, ivMs, qMs)
	}
}

func TestSequential(t *testing.T) {
	hx.Check(t, hx.N{Quick: 40000, Thorough: 400000}, func(t *rapid.T, c *hx.Case) {
		cacheTime := rapid.Bool().Draw(t, "useCacheTimeConfigured") // the process-wide "use the cached clock" setting does not coarsen the pacing arithmetic
		hx.ResetCfg(hx.Epoch+uint64(rapid.IntRange(0, 999).Draw(t, "t0")), hx.DefaultStat, func(e *config.Entity) { e.Sentinel.UseCacheTime = cacheTime })
		T := rapid.SampledFrom(thresholds).Draw(t, "T")
		iv := rapid.SampledFrom(intervals).Draw(t, "I")
		q := rapid.SampledFrom(queues).Draw(t, "Q")
		loadRule(t, T, iv, q)
		hx.C.Advance = rapid.Bool().Draw(t, "serialCaller") // Sleep blocks the (single) caller vs callers sleep in parallel
		c.Op("T=%v I=%d maxQ=%dms sleepAdvances=%v", T, iv, q, hx.C.Advance)
		maxQ := int64(q) * 1e6
		last := int64(0) // latest assigned pass time
		sawWait, sawReject, passAfterReject := false, false, false
		n := rapid.IntRange(1, 30).Draw(t, "n")
		reloads, requeued := 0, false
		for i := 0; i < n; i++ {
			if rapid.IntRange(0, 11).Draw(t, "requeue") == 5 {
				// the rule is reloaded with ONLY its queueing limit changed: a changed rule gets a new controller, the new limit
				// applies from now on and pacing starts afresh
				q2 := rapid.SampledFrom(queues).Draw(t, "Q2")
				if q2 != q {
					q = q2
					maxQ = int64(q) * 1e6
					nr := *loaded
					nr.MaxQueueingTimeMs = uint32(q)
					cp := nr
					loaded = &cp
					if _, err := flow.LoadRules([]*flow.Rule{&nr}); err != nil || len(flow.GetRulesOfResource("t")) != 1 {
						t.Fatalf("reload with another queueing limit: %v", err)
					}
					last = 0
					c.Op("reload: max queueing time now %d ms", q)
					requeued = true
				}
			}
			if memFlip.mem != 0 && rapid.IntRange(0, 5).Draw(t, "memoryCrossesTheMarks") == 2 {
				// the memory reading crosses both water marks: from now on the rule paces at its other threshold; what was
				// reserved so far stays reserved
				system_metric.SetSystemMemoryUsage(memFlip.mem)
				other := memFlip
				if memFlip.mem == 5000 {
					memFlip.mem, memFlip.T = 500, T
				} else {
					memFlip.mem, memFlip.T = 5000, T
				}
				T = other.T
				c.Op("memory reading now %d: effective threshold %v", other.mem, T)
				c.Class("memory-adaptive-threshold-changes-mid-history")
			}
			if rapid.IntRange(0, 7).Draw(t, "reload") == 3 {
				// the rule set is reloaded with the pacing rule unchanged (a fresh, equal object) and something else different:
				// pacing state and queued reservations must survive
				reloads++
				same := *loaded
				others := []*flow.Rule{&same, {Resource: "elsewhere", Threshold: float64(reloads)}}
				if rapid.Bool().Draw(t, "otherFirst") {
					others[0], others[1] = others[1], others[0]
				}
				var err error
				if rapid.Bool().Draw(t, "perResource") {
					_, err = flow.LoadRulesOfResource("t", []*flow.Rule{&same, {Resource: "t", Threshold: 1e9 + float64(reloads)}})
				} else {
					_, err = flow.LoadRules(others)
				}
				if err != nil {
					t.Fatalf("reload: %v", err)
				}
				c.Op("reload #%d (pacing rule unchanged)", reloads)
			}
			b := uint32(rapid.SampledFrom([]int{1, 1, 1, 2, 3, 4, 11, 2000}).Draw(t, "batch"))
			var dt int64
			switch rapid.IntRange(0, 4).Draw(t, "dk") {
			case 1:
				dt = int64(rapid.IntRange(1, 1000).Draw(t, "ns"))
			case 2:
				dt = int64(rapid.IntRange(1, 2000).Draw(t, "ms")) * 1e6
			case 3:
				if T > 0 {
					dt = need(1, T, iv) // exactly one spacing
					if dt > 5e12 {
						dt = 5e12
					}
				}
			case 4:
				if T > 0 {
					dt = need(b, T, iv) - int64(rapid.IntRange(0, 1).Draw(t, "short"))
					if dt < 0 || dt > 5e12 {
						dt = 1
					}
				}
			}
			hx.C.AddNs(dt)
			now := hx.C.Ns()
			hx.C.TakeSlept()
			var bo []sentinel.EntryOption
			if !(b == 1 && rapid.Bool().Draw(t, "plainCall")) {
				bo = append(bo, sentinel.WithBatchCount(b))
			}
			e, blk := sentinel.Entry("t", bo...)
			slept := hx.C.TakeSlept()
			var wait int64
			for _, d := range slept {
				wait += int64(d)
			}
			if e != nil {
				e.Exit()
			}
			// reference
			expPass, expWait := false, int64(0)
			if T > 0 && float64(b) <= T {
				nd := need(b, T, iv)
				pt := last + nd
				if pt < now {
					pt = now
				}
				if pt-now <= maxQ {
					expPass = true
					expWait = pt - now
				}
			}
			c.Op("+%dns t=%d Entry(batch %d) -> pass=%v wait=%dns (reference pass=%v wait=%d)", dt, now, b, blk == nil, wait, expPass, expWait)
			if expPass != (blk == nil) {
				t.Fatalf("t=%dns batch %d (T=%v I=%d maxQ=%dms, last pass time %d): reference says pass=%v (would wait %dns), library returned block=%v", now, b, T, iv, q, last, expPass, expWait, blk)
			}
			if blk != nil {
				if blk.BlockType() != base.BlockTypeFlow {
					t.Fatalf("block type %v", blk.BlockType())
				}
				if wait != 0 {
					t.Fatalf("a rejected request was asked to sleep %dns", wait)
				}
				sawReject = true
			} else {
				if wait != expWait {
					t.Fatalf("t=%dns batch %d: asked to wait %dns, spacing requires exactly %dns (last pass time %d, need %d)", now, b, wait, expWait, last, need(b, T, iv))
				}
				if wait > maxQ {
					t.Fatalf("asked to wait %dns > max queueing time %dns", wait, maxQ)
				}
				last = now + wait
				if wait > 0 {
					sawWait = true
				}
				if sawReject {
					passAfterReject = true
				}
			}
		}
		c.ClassIf(sawWait, "wait>0")
		c.ClassIf(sawReject, "reject")
		c.ClassIf(reloads > 0, "reloaded-with-the-pacing-rule-unchanged")
		c.ClassIf(requeued, "reloaded-with-another-queueing-limit")
		if sawWait && sawReject && passAfterReject {
			c.NonTrivial()
		}
	})
}

type call struct {
	task    *sched.Task
	b       uint32
	arrival int64
	end     int64
	pass    bool
	wait    int64
	s0, s1  int
	started bool
}

func TestConcurrentCallers(t *testing.T) {
	hx.Check(t, hx.N{Quick: 20000, Thorough: 300000}, func(t *rapid.T, c *hx.Case) {
		hx.Reset(hx.Epoch)
		s := sched.New("tc.", "chain.checked") // also between the rule check and the evaluation of its outcome
		defer s.Close()
		T := rapid.SampledFrom([]float64{1, 2, 5, 10, 2.5}).Draw(t, "T")
		q := rapid.SampledFrom([]int{0, 100, 500, 1000}).Draw(t, "Q")
		loadRule(t, T, 0, q)
		stalledMode := rapid.Bool().Draw(t, "ticksInsideDoCheck")
		c.Op("T=%v maxQ=%dms stalledMode=%v", T, q, stalledMode)
		warmLast := int64(0)
		if rapid.Bool().Draw(t, "warm") {
			if e, _ := sentinel.Entry("t"); e != nil {
				e.Exit()
				warmLast = hx.C.Ns()
			}
		}
		hx.C.AddMs(uint64(rapid.SampledFrom([]int{0, 1, 50, 100, 200, 500, 1000}).Draw(t, "gap")))
		ng := rapid.IntRange(2, 4).Draw(t, "callers")
		calls := make([]*call, ng)
		hx.C.OnSleep = func(d time.Duration) {
			if cur := s.Current(); cur != nil {
				for _, cl := range calls {
					if cl != nil && cl.task == cur {
						cl.wait += int64(d)
					}
				}
			}
		}
		for g := 0; g < ng; g++ {
			cl := &call{b: uint32(rapid.IntRange(1, 2).Draw(t, "b"))}
			calls[g] = cl
			cl.task = s.Spawn(func() {
				e, _ := sentinel.Entry("t", sentinel.WithBatchCount(cl.b))
				cl.pass = e != nil
				if e != nil {
					e.Exit()
				}
			})
		}
		step := 0
		overlapAddRollback := false
		for step = 1; step < 300; step++ {
			var live []*call
			for _, cl := range calls {
				if !cl.task.Done {
					live = append(live, cl)
				}
			}
			if len(live) == 0 {
				break
			}
			ch := rapid.IntRange(0, len(live)).Draw(t, "choice")
			if ch == len(live) {
				inside := false
				for _, cl := range live {
					if cl.started {
						inside = true
					}
				}
				if inside && !stalledMode {
					continue
				}
				tick := uint64(rapid.SampledFrom([]int{1, 10, 100, 101, 400}).Draw(t, "tick"))
				hx.C.AddMs(tick)
				c.Op("tick %dms", tick)
				continue
			}
			cl := live[ch]
			if !cl.started {
				cl.started = true
				cl.arrival = hx.C.Ns() // DoCheck reads the clock before its first atomic access
				cl.s0 = step
			}
			p := s.Step(cl.task)
			cl.s1 = step
			cl.end = hx.C.Ns()
			c.Op("caller(batch %d) -> %s", cl.b, p)
			if p == "tc.rollback" {
				for _, o := range calls {
					if o != cl && o.started && !o.task.Done {
						overlapAddRollback = true
					}
				}
			}
		}
		if !s.FinishAll(3000) {
			t.Fatalf("a caller did not terminate under a fair schedule")
		}
		for _, cl := range calls {
			if cl.task.Panic != nil {
				t.Fatalf("Entry panicked: %v", cl.task.Panic)
			}
			if !cl.started {
				cl.arrival = hx.C.Ns()
			}
			if cl.end < cl.arrival {
				cl.end = hx.C.Ns()
			}
		}
		maxQ := int64(q) * 1e6
		var adm []*call
		var tol int64
		anyOverlap := false
		for i, a := range calls {
			if a.pass {
				adm = append(adm, a)
			}
			if a.wait > maxQ {
				t.Fatalf("a caller (batch %d) was asked to wait %dns > max queueing time %dns", a.b, a.wait, maxQ)
			}
			if !a.pass && a.wait != 0 {
				t.Fatalf("a rejected caller was asked to sleep %dns", a.wait)
			}
			if st := a.end - a.arrival; st > tol {
				tol = st
			}
			for j, b := range calls {
				if i < j && a.s0 <= b.s1 && b.s0 <= a.s1 {
					anyOverlap = true
				}
			}
		}
		if !stalledMode {
			tol = 0
		}
		sort.Slice(adm, func(i, j int) bool { return adm[i].arrival+adm[i].wait < adm[j].arrival+adm[j].wait })
		for k := 1; k < len(adm); k++ {
			nd := need(adm[k].b, T, 0)
			gap := (adm[k].arrival + adm[k].wait) - (adm[k-1].arrival + adm[k-1].wait)
			if gap < nd-tol {
				t.Fatalf("spacing violated: pass times %d then %d (gap %dns, need %dns, stall tolerance %dns); calls %+v then %+v", adm[k-1].arrival+adm[k-1].wait, adm[k].arrival+adm[k].wait, gap, nd, tol, *adm[k-1], *adm[k])
			}
		}
		// at quiescence nothing may stay reserved for a caller that was rejected (rollback): a follow-up
		// request is decided by the sequential model with last = the latest assigned pass time
		hx.C.OnSleep = nil
		last := warmLast
		for _, a := range adm {
			if pt := a.arrival + a.wait; pt > last {
				last = pt
			}
		}
		hx.C.AddNs(int64(rapid.SampledFrom([]int{0, 1, 50, 100, 500, 1000}).Draw(t, "followGap")) * 1e6)
		now := hx.C.Ns()
		fb := uint32(rapid.IntRange(1, 2).Draw(t, "followBatch"))
		hx.C.TakeSlept()
		fe, fblk := sentinel.Entry("t", sentinel.WithBatchCount(fb))
		var fwait int64
		for _, d := range hx.C.TakeSlept() {
			fwait += int64(d)
		}
		if fe != nil {
			fe.Exit()
		}
		expPass, expWait := false, int64(0)
		if float64(fb) <= T {
			pt := last + need(fb, T, 0)
			if pt < now {
				pt = now
			}
			if pt-now <= maxQ {
				expPass, expWait = true, pt-now
			}
		}
		c.Op("follow-up t=%d batch %d -> pass=%v wait=%d", now, fb, fblk == nil, fwait)
		if tol == 0 {
			if expPass != (fblk == nil) || (expPass && fwait != expWait) {
				t.Fatalf("follow-up request after quiescence (t=%dns, batch %d, latest assigned pass time %d): reference pass=%v wait=%dns, library pass=%v wait=%dns (a rejected caller's reservation was kept, or an admitted one lost)", now, fb, last, expPass, expWait, fblk == nil, fwait)
			}
		} else if fblk == nil && fwait > maxQ {
			t.Fatalf("follow-up wait %d > maxQ", fwait)
		}
		c.ClassIf(anyOverlap, "overlapping-callers")
		c.ClassIf(overlapAddRollback, "rollback-while-another-inside")
		if anyOverlap {
			c.NonTrivial()
		}
	})
}

// Several pacing rules on one resource: a request is paced by every one of them in list order (the serial caller really
// sleeps each wait, so a later rule is consulted at the instant the earlier wait ends). Consecutive admitted requests
// must therefore be separated by the spacing of EVERY rule, in particular of the strictest one, wherever it is listed.
func TestSeveralPacingRules(t *testing.T) {
	hx.Check(t, hx.N{Quick: 6000, Thorough: 60000}, func(t *rapid.T, c *hx.Case) {
		hx.Reset(hx.Epoch + uint64(rapid.IntRange(0, 999).Draw(t, "t0")))
		hx.C.Advance = true
		defer func() { hx.C.Advance = false }()
		nr := rapid.IntRange(2, 3).Draw(t, "rules")
		var rs []*flow.Rule
		var needs []int64
		for i := 0; i < nr; i++ {
			T := rapid.SampledFrom([]float64{1, 2, 5, 10, 50, 100, 1000}).Draw(t, "T")
			rs = append(rs, &flow.Rule{ID: fmt.Sprint(i), Resource: "t", TokenCalculateStrategy: flow.Direct, ControlBehavior: flow.Throttling, Threshold: T, MaxQueueingTimeMs: 3600000})
			needs = append(needs, need(1, T, 0))
			c.Op("pacing rule %d: %v/s", i, T)
		}
		twins := rapid.IntRange(0, 3).Draw(t, "twins") == 0
		if twins { // the same pacing rule listed twice (equal values, distinct objects and IDs): the two pace in lockstep
			T := rs[0].Threshold
			rs = []*flow.Rule{rs[0], {ID: "twin", Resource: "t", TokenCalculateStrategy: flow.Direct, ControlBehavior: flow.Throttling, Threshold: T, MaxQueueingTimeMs: 3600000}}
			needs = []int64{need(1, T, 0)}
			nr = 2
			c.Class("twin-pacing-rules")
		}
		if rapid.IntRange(0, 3).Draw(t, "rejectRuleToo") == 0 { // an inert reject rule somewhere in the list
			k := rapid.IntRange(0, len(rs)).Draw(t, "at")
			rs = append(rs[:k:k], append([]*flow.Rule{{ID: "inert", Resource: "t", Threshold: 1e9}}, rs[k:]...)...)
		}
		if _, err := flow.LoadRules(rs); err != nil || len(flow.GetRulesOfResource("t")) != len(rs) {
			t.Fatalf("LoadRules: %v", err)
		}
		strict := int64(0)
		for _, nd := range needs {
			if nd > strict {
				strict = nd
			}
		}
		lastPass := int64(-1)
		waited := false
		reloadN := 0
		n := rapid.IntRange(2, 12).Draw(t, "n")
		for i := 0; i < n; i++ {
			if rapid.IntRange(0, 2).Draw(t, "gap") == 0 {
				hx.C.AddNs(int64(rapid.IntRange(1, 300).Draw(t, "ms")) * 1e6)
			}
			if rapid.IntRange(0, 4).Draw(t, "reload") == 0 { // every rule of the resource unchanged (fresh equal objects), a rule elsewhere changes
				reloadN++
				var cp []*flow.Rule
				for _, r := range rs {
					x := *r
					cp = append(cp, &x)
				}
				cp = append(cp, &flow.Rule{Resource: "elsewhere", Threshold: float64(reloadN)})
				if _, err := flow.LoadRules(cp); err != nil || len(flow.GetRulesOfResource("t")) != len(rs) {
					t.Fatalf("reload: %v", err)
				}
				c.Op("reload #%d (rules of the resource unchanged)", reloadN)
			}
			arrive := hx.C.Ns()
			hx.C.TakeSlept()
			e, blk := sentinel.Entry("t")
			var wait int64
			for _, d := range hx.C.TakeSlept() {
				wait += int64(d)
			}
			if blk != nil {
				t.Fatalf("request %d rejected although every rule may queue for an hour: %v", i, blk)
			}
			e.Exit()
			pass := int64(hx.C.Ns())
			c.Op("arrive %d wait %dns pass %d", arrive, wait, pass)
			if pass != int64(arrive)+wait {
				t.Fatalf("the clock after the entry (%d) is not arrival + waits (%d + %d)", pass, arrive, wait)
			}
			if twins { // exact: one spacing, never two (both rules reserve the same slot)
				want := int64(0)
				if lastPass >= 0 && lastPass+strict > int64(arrive) {
					want = lastPass + strict - int64(arrive)
				}
				if wait != want {
					t.Fatalf("twin pacing rules (%dns spacing): request %d arriving at %d after a pass at %d was asked to wait %dns, the spacing requires exactly %dns", strict, i, arrive, lastPass, wait, want)
				}
			}
			if lastPass >= 0 && pass-lastPass < strict {
				t.Fatalf("request %d passes at %dns, only %dns after the previous admitted request; the strictest of the %d pacing rules on the resource demands %dns between admitted requests (rule spacings %v)", i, pass, pass-lastPass, nr, strict, needs)
			}
			if wait > 0 {
				waited = true
			}
			lastPass = pass
		}
		c.ClassIf(waited, "wait>0")
		if waited {
			c.NonTrivial()
		}
	})
}

// TestReloadDuringCheck: a request on an idle resource with three pacing rules [A,B,C] is somewhere inside its rule checks
// (stopped at any of the checker's atomic accesses) when the rules of the resource are reloaded with one rule edited,
// removed or added, through either loader. Old and new list agree on the untouched rules, and those keep their pacing
// state across the reload; so whichever list decides the request, it is admitted without a wait (everything is idle) and it
// is charged by every untouched rule exactly once: a second request at the same instant is asked to wait the sum of the
// untouched rules' spacings (the clock does not move while it sleeps), plus the edited/added rule's spacing if the first
// request was decided by the new list.
func TestReloadDuringCheck(t *testing.T) {
	hx.Check(t, hx.N{Quick: 4000, Thorough: 60000}, func(t *rapid.T, c *hx.Case) {
		hx.Reset(hx.Epoch + uint64(rapid.IntRange(0, 999).Draw(t, "t0")))
		s := sched.New("tc.", "chain.checked")
		defer s.Close()
		pool := []float64{1, 2, 4, 5, 10, 20, 50}
		perm := rapid.Permutation(pool).Draw(t, "thresholds")
		mk := func(id string, T float64) *flow.Rule {
			return &flow.Rule{ID: id, Resource: "t", TokenCalculateStrategy: flow.Direct, ControlBehavior: flow.Throttling, Threshold: T, MaxQueueingTimeMs: 3600000}
		}
		old := []*flow.Rule{mk("A", perm[0]), mk("B", perm[1]), mk("C", perm[2])}
		if _, err := flow.LoadRules(old); err != nil || len(flow.GetRulesOfResource("t")) != 3 {
			t.Fatalf("LoadRules: %v", err)
		}
		// the new list
		var next []*flow.Rule
		for _, r := range old {
			x := *r
			next = append(next, &x)
		}
		var untouched []*flow.Rule
		var fresh *flow.Rule // the edited or added rule: present in the new list only (with pacing state of its own)
		k := rapid.IntRange(0, 2).Draw(t, "which")
		kind := rapid.SampledFrom([]string{"edit", "remove", "add"}).Draw(t, "reloadKind")
		switch kind {
		case "edit":
			next[k].Threshold = perm[3]
			fresh = next[k]
			for i, r := range next {
				if i != k {
					untouched = append(untouched, r)
				}
			}
		case "remove":
			next = append(next[:k:k], next[k+1:]...)
			untouched = next
		case "add":
			untouched = append(untouched, next...)
			fresh = mk("X", perm[3])
			at := rapid.IntRange(0, 3).Draw(t, "at")
			next = append(next[:at:at], append([]*flow.Rule{fresh}, next[at:]...)...)
		}
		perRes := rapid.Bool().Draw(t, "perResourceLoader")
		var firstWait int64
		var firstBlocked bool
		hx.C.OnSleep = func(d time.Duration) { firstWait += int64(d) }
		defer func() { hx.C.OnSleep = nil }()
		caller := s.Spawn(func() {
			e, blk := sentinel.Entry("t")
			firstBlocked = blk != nil
			if e != nil {
				e.Exit()
			}
		})
		var loadErr error
		loader := s.Spawn(func() {
			if perRes {
				_, loadErr = flow.LoadRulesOfResource("t", next)
			} else {
				_, loadErr = flow.LoadRules(next)
			}
		})
		reloadAfter := rapid.IntRange(0, 14).Draw(t, "callerStepsBeforeTheReload")
		inside := false
		for i := 0; i < reloadAfter && !caller.Done; i++ {
			p := s.Step(caller)
			c.Op("caller -> %s", p)
			inside = !caller.Done
		}
		for !loader.Done {
			s.Step(loader)
		}
		c.Op("reload (%s rule %d, per-resource loader=%v) with the caller inside=%v", kind, k, perRes, inside)
		if !s.FinishAll(3000) {
			t.Fatalf("the caller did not terminate")
		}
		if caller.Panic != nil || loader.Panic != nil {
			t.Fatalf("panic: caller %v loader %v", caller.Panic, loader.Panic)
		}
		if loadErr != nil || len(flow.GetRulesOfResource("t")) != len(next) {
			t.Fatalf("reload: %v", loadErr)
		}
		hx.C.OnSleep = nil
		if firstBlocked || firstWait != 0 {
			t.Fatalf("a request on an idle resource (three pacing rules, queueing limit 1 h) raced with a reload (%s rule %d): blocked=%v wait=%dns, want admitted at once under the old list and under the new one", kind, k, firstBlocked, firstWait)
		}
		hx.C.TakeSlept()
		e, blk := sentinel.Entry("t")
		var wait int64
		for _, d := range hx.C.TakeSlept() {
			wait += int64(d)
		}
		if e != nil {
			e.Exit()
		}
		var base int64
		for _, r := range untouched {
			base += need(1, r.Threshold, 0)
		}
		with := base
		if fresh != nil {
			with += need(1, fresh.Threshold, 0)
		}
		if blk != nil || (wait != base && wait != with) {
			t.Fatalf("after a request raced with a reload (%s rule %d, per-resource loader=%v, caller inside its checks=%v), the next request at the same instant: blocked=%v, asked to wait %dns in total; the untouched rules %v charge exactly %dns (plus %dns if the new list decided the first request): the first request was not checked once by each untouched rule", kind, k, perRes, inside, blk != nil, wait, thresholdsOf(untouched), base, with-base)
		}
		if inside {
			c.NonTrivial()
			c.Class("reload-while-the-caller-is-inside-its-checks")
		}
	})
}

func thresholdsOf(rs []*flow.Rule) []float64 {
	var out []float64
	for _, r := range rs {
		out = append(out, r.Threshold)
	}
	return out
}
