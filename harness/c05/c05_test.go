// C05: hot-parameter QPS rules shape each parameter value independently.
package c05

import (
	"fmt"
	"strings"
	"testing"
	"time"

	sentinel "github.com/alibaba/sentinel-golang/api"
	"github.com/alibaba/sentinel-golang/core/base"
	"github.com/alibaba/sentinel-golang/core/hotspot"
	"github.com/alibaba/sentinel-golang/core/system"
	"pgregory.net/rapid"

	"verif/harness/hx"
)

func TestMain(m *testing.M) { hx.Main(m, "C05") }

type S struct{ A int }

// pool of argument values (every type the statement lists, near-equal floats, same number in different types); each case
// works on a drawn permutation of it, the first nvals entries being the values that occur in requests
type SA struct {
	IP   [4]byte
	Port int
}

var pool = []interface{}{1, 2, "x", "y", true, 3.5, S{1}, S{2}, false, "", "1", int64(1), 2.000001, 2.000002, 0.1234567, float32(1.5), uint8(2),
	[4]byte{10, 0, 0, 1}, [4]byte{10, 0, 0, 2}, SA{[4]byte{10, 0, 0, 1}, 80}}
var vals = pool

type req struct {
	t     uint64 // ms
	vi    int    // index into vals; -1 = request without the selected argument; -2 = too few args
	batch int64
}

type out struct {
	pass bool
	wait int64 // ns requested
}

func cloneRule(r *hotspot.Rule) *hotspot.Rule {
	c := *r
	c.SpecificItems = map[interface{}]int64{}
	for k, v := range r.SpecificItems {
		c.SpecificItems[k] = v
	}
	return &c
}

func drawRule(t *rapid.T, c *hx.Case, id string, selector int) *hotspot.Rule {
	r := &hotspot.Rule{ID: id, Resource: "h", MetricType: hotspot.QPS, SpecificItems: map[interface{}]int64{}}
	switch selector {
	case 0, 1:
		r.ParamIndex = selector
	case 2:
		r.ParamIndex = -1
	case 3:
		r.ParamIndex = -2
	case 4:
		r.ParamKey = "k"
	}
	r.Threshold = int64(rapid.SampledFrom([]int{0, 1, 1, 2, 3, 5, 10, 5000}).Draw(t, "T"))
	r.DurationInSec = int64(rapid.IntRange(1, 3).Draw(t, "D"))
	if rapid.Bool().Draw(t, "throttling") {
		r.ControlBehavior = hotspot.Throttling
		r.MaxQueueingTimeMs = int64(rapid.SampledFrom([]int{0, 1, 100, 1000, 5000}).Draw(t, "maxQ"))
	} else {
		r.ControlBehavior = hotspot.Reject
		r.BurstCount = int64(rapid.IntRange(0, 5).Draw(t, "burst"))
	}
	ns := rapid.IntRange(0, 2).Draw(t, "nspec")
	for i := 0; i < ns; i++ {
		r.SpecificItems[vals[rapid.IntRange(0, len(vals)-1).Draw(t, "sv")]] = int64(rapid.SampledFrom([]int{0, 1, 2, 4, 8}).Draw(t, "st"))
	}
	c.Op("rule %s selector=%d T=%d D=%ds behavior=%v burst=%d maxQ=%d specific=%v", id, selector, r.Threshold, r.DurationInSec, r.ControlBehavior, r.BurstCount, r.MaxQueueingTimeMs, r.SpecificItems)
	return r
}

// args builds the positional arguments / attachment so that the rule's selector picks vals[vi].
func options(selector int, q req) []sentinel.EntryOption {
	opts := []sentinel.EntryOption{sentinel.WithBatchCount(uint32(q.batch))}
	if q.vi == -1 {
		return opts // no argument at all
	}
	if q.vi == -2 { // too few positional arguments for the selector
		switch selector {
		case 1, 3:
			return append(opts, sentinel.WithArgs("only-one"))
		default:
			return opts
		}
	}
	v := vals[q.vi]
	switch selector {
	case 0:
		return append(opts, sentinel.WithArgs(v, "pad"))
	case 1:
		return append(opts, sentinel.WithArgs("pad", v, "pad2"))
	case 2:
		return append(opts, sentinel.WithArgs("pad", v))
	case 3:
		return append(opts, sentinel.WithArgs(v, "pad"))
	default:
		return append(opts, sentinel.WithAttachment("k", v))
	}
}

// run loads fresh copies of the rules and plays the requests at their instants.
func run(t *rapid.T, rules []*hotspot.Rule, selector int, reqs []req, t0 uint64) []out {
	hx.Reset(t0)
	var cp []*hotspot.Rule
	for _, r := range rules {
		cp = append(cp, cloneRule(r))
	}
	if _, err := hotspot.LoadRules(cp); err != nil {
		t.Fatalf("LoadRules: %v", err)
	}
	if got := len(hotspot.GetRulesOfResource("h")); got != len(rules) {
		t.Fatalf("%d valid rules, module reports %d", len(rules), got)
	}
	outs := make([]out, len(reqs))
	for i, q := range reqs {
		hx.C.SetMs(q.t)
		hx.C.TakeSlept()
		done := make(chan struct{})
		var e *base.SentinelEntry
		var blk *base.BlockError
		go func() {
			defer close(done)
			e, blk = sentinel.Entry("h", options(selector, q)...)
		}()
		select {
		case <-done:
		case <-time.After(20 * time.Second):
			t.Fatalf("Entry did not return within 20 s (hang) for request %d %+v", i, q)
		}
		var w int64
		for _, d := range hx.C.TakeSlept() {
			w += int64(d)
		}
		if blk != nil && blk.BlockType() != base.BlockTypeHotSpotParamFlow {
			t.Fatalf("block type %v", blk.BlockType())
		}
		if e != nil {
			e.Exit()
		}
		outs[i] = out{pass: blk == nil, wait: w}
	}
	return outs
}

func thr(r *hotspot.Rule, v interface{}) int64 {
	if s, ok := r.SpecificItems[v]; ok {
		return s
	}
	return r.Threshold
}

func TestPerValueShaping(t *testing.T) {
	hx.Check(t, hx.N{Quick: 15000, Thorough: 160000}, func(t *rapid.T, c *hx.Case) {
		vals = rapid.Permutation(pool).Draw(t, "values")
		selector := rapid.IntRange(0, 4).Draw(t, "selector")
		rules := []*hotspot.Rule{drawRule(t, c, "r0", selector)}
		if rapid.IntRange(0, 3).Draw(t, "second") == 0 {
			rules = append(rules, drawRule(t, c, "r1", selector))
		}
		var absent *hotspot.Rule
		if rapid.IntRange(0, 3).Draw(t, "absentArgumentRuleFirst") == 0 {
			// a rule on an argument no request ever carries, listed first: it limits nothing ("requests without the selected
			// argument are never limited") and the rules after it meter as if it were not there
			absent = &hotspot.Rule{ID: "absent", Resource: "h", MetricType: hotspot.QPS, ParamIndex: 9, Threshold: 0, DurationInSec: 1, SpecificItems: map[interface{}]int64{}}
			c.Class("rule-on-an-absent-argument-listed-first")
		}
		loaded := func() []*hotspot.Rule { // what is loaded: the rules of the case, behind the absent-argument rule if drawn
			if absent == nil {
				return rules
			}
			return append([]*hotspot.Rule{absent}, rules...)
		}
		nvals := rapid.IntRange(1, 5).Draw(t, "nvals")
		c.Op("values in use: %#v", vals[:nvals])
		capKind := rapid.IntRange(0, 3).Draw(t, "capacity")
		small := false
		for _, r := range rules {
			switch capKind {
			case 1:
				r.ParamsMaxCapacity = int64(nvals + rapid.IntRange(0, 3).Draw(t, "capExtra"))
			case 2:
				if nvals > 1 {
					r.ParamsMaxCapacity = int64(rapid.IntRange(1, nvals-1).Draw(t, "capSmall"))
					small = true
				}
			}
		}
		t0 := hx.Epoch + uint64(rapid.IntRange(0, 999).Draw(t, "t0"))
		now := t0
		var reqs []req
		n := rapid.IntRange(1, 40).Draw(t, "n")
		for i := 0; i < n; i++ {
			now += uint64(rapid.SampledFrom([]int{0, 0, 1, 10, 100, 400, 999, 1000, 1001, 2500, 3001, 7000}).Draw(t, "dt"))
			vi := rapid.IntRange(-2, nvals-1).Draw(t, "v")
			reqs = append(reqs, req{t: now, vi: vi, batch: int64(rapid.IntRange(1, 3).Draw(t, "batch"))})
			if vi >= 0 && rapid.IntRange(0, 5).Draw(t, "burstNow") == 0 { // a burst for one value at one instant (drains whatever has accumulated)
				k := rapid.IntRange(2, 14).Draw(t, "burstLen")
				for j := 0; j < k && len(reqs) < 80; j++ {
					reqs = append(reqs, req{t: now, vi: vi, batch: 1})
				}
			}
		}
		full := run(t, loaded(), selector, reqs, t0)
		for i, q := range reqs {
			c.Op("t=+%d v=%d batch=%d -> pass=%v wait=%dms", q.t-t0, q.vi, q.batch, full[i].pass, full[i].wait/1e6)
		}
		c.ClassIf(small, "capacity<values")

		// requests without the selected argument are never limited
		for i, q := range reqs {
			if q.vi < 0 && !full[i].pass {
				t.Fatalf("request %d without the selected argument (kind %d) was rejected", i, q.vi)
			}
		}
		if small {
			return // below capacity only: no panic, no hang, no-arg requests unlimited
		}

		interleaved, blockAndRefill, specificUsed, waited := false, false, false, false
		for vi := 0; vi < nvals; vi++ {
			v := vals[vi]
			var idx []int
			for i, q := range reqs {
				if q.vi == vi {
					idx = append(idx, i)
				}
			}
			if len(idx) == 0 {
				continue
			}
			for k := 1; k < len(idx); k++ {
				if idx[k] != idx[k-1]+1 {
					interleaved = true
				}
			}
			// ---- envelope, per rule ----
			for _, r := range rules {
				T := thr(r, v)
				if _, ok := r.SpecificItems[v]; ok {
					specificUsed = true
				}
				D := uint64(r.DurationInSec) * 1000
				if T <= 0 {
					for _, i := range idx {
						if full[i].pass {
							t.Fatalf("value %v has threshold %d under rule %s but request %d was admitted", v, T, r.ID, i)
						}
					}
					continue
				}
				if r.ControlBehavior == hotspot.Reject {
					max := T + r.BurstCount
					first := reqs[idx[0]].t
					var cum int64
					sawBlock := false
					for k, i := range idx {
						q := reqs[i]
						if full[i].pass {
							cum += q.batch
							bound := max + (T*int64(q.t-first)+int64(D)-1)/int64(D)
							if cum > bound {
								t.Fatalf("value %v rule %s: %d tokens admitted by t=+%d, envelope (T+burst)+ceil(T*elapsed/D) = %d", v, r.ID, cum, q.t-first, bound)
							}
							// any window shorter than D ending here
							var win int64
							for _, j := range idx[:k+1] {
								if full[j].pass && q.t-reqs[j].t < D {
									win += reqs[j].batch
								}
							}
							if win > 2*max {
								t.Fatalf("value %v rule %s: %d tokens admitted inside one duration, more than 2*(T+burst)=%d", v, r.ID, win, 2*max)
							}
							if sawBlock && k > 0 && q.t-reqs[idx[k-1]].t > D {
								blockAndRefill = true
							}
						} else {
							sawBlock = true
						}
					}
				} else { // throttling
					var lastPass int64 = -1
					for _, i := range idx {
						q := reqs[i]
						if !full[i].pass {
							if full[i].wait != 0 && len(rules) == 1 {
								t.Fatalf("rejected request asked to wait")
							}
							continue
						}
						if len(rules) == 1 {
							if full[i].wait/1e6 >= r.MaxQueueingTimeMs && full[i].wait > 0 {
								t.Fatalf("value %v: asked to wait %dms, not shorter than MaxQueueingTimeMs %d", v, full[i].wait/1e6, r.MaxQueueingTimeMs)
							}
							pt := int64(q.t) + full[i].wait/1e6
							cost := q.batch * int64(D) / T
							if lastPass >= 0 && pt-lastPass < cost {
								t.Fatalf("value %v: pass times %d then %d are %dms apart, need batch*D/T = %dms", v, lastPass, pt, pt-lastPass, cost)
							}
							lastPass = pt
							if full[i].wait > 0 {
								waited = true
							}
						}
					}
				}
			}
			// ---- idle grant: first request of a value, or one arriving more than D after the previous
			// request of that value, with batch <= T for every rule, is admitted (reject rules) ----
			for k, i := range idx {
				q := reqs[i]
				ok := true
				for _, r := range rules {
					T := thr(r, v)
					D := uint64(r.DurationInSec) * 1000
					if r.ControlBehavior != hotspot.Reject || q.batch > T {
						ok = false
					}
					if k > 0 && q.t-reqs[idx[k-1]].t <= D {
						ok = false
					}
				}
				if ok && !full[i].pass {
					t.Fatalf("value %v idle for longer than the duration (or never seen): request %d batch %d <= threshold was rejected", v, i, q.batch)
				}
			}
			// ---- independence: the projection of the history onto v alone gives identical outcomes ----
			var proj []req
			for _, i := range idx {
				proj = append(proj, reqs[i])
			}
			alone := run(t, loaded(), selector, proj, t0)
			for k, i := range idx {
				if alone[k] != full[i] {
					t.Fatalf("value %v: request at t=+%d batch %d got pass=%v wait=%dns in the full history but pass=%v wait=%dns when only this value's traffic is replayed (another value's traffic changed the decision)", v, reqs[i].t-t0, reqs[i].batch, full[i].pass, full[i].wait, alone[k].pass, alone[k].wait)
				}
			}
			c.Count("projection_runs", 1)
		}
		c.ClassIf(interleaved, "values-interleaved")
		c.ClassIf(blockAndRefill, "block-and-refill")
		c.ClassIf(specificUsed, "specific-item")
		c.ClassIf(waited, "throttling-wait>0")
		if (interleaved && blockAndRefill) || specificUsed || waited {
			c.NonTrivial()
		}
	})
}

var _ = fmt.Sprint

// Large parameter tables: "traffic on one value never changes the decision for another value while the configured
// parameter capacity is not exceeded" for capacities beyond the built-in defaults (4000 per second of duration,
// 20000 at most). Every value spends its single token at one instant; asked again inside the same duration each value
// must be refused (reject mode) or queued behind its own first request (throttling) - never treated as first seen.
func TestLargeCapacity(t *testing.T) {
	hx.Check(t, hx.N{Quick: 24, Thorough: 480}, func(t *rapid.T, c *hx.Case) {
		d := int64(rapid.IntRange(1, 2).Draw(t, "D"))
		def := 4000 * d
		var capacity int64
		switch rapid.IntRange(0, 5).Draw(t, "capKind") {
		case 0: // beyond the absolute default maximum
			capacity = 20000 + int64(rapid.IntRange(1, 400).Draw(t, "over"))
		case 1: // not configured: the documented default applies
			capacity = 0
		default: // configured above the duration-derived default
			capacity = def + int64(rapid.IntRange(1, 1500).Draw(t, "over"))
		}
		eff := capacity
		if eff == 0 {
			eff = def
		}
		n := int(eff) - rapid.IntRange(0, 300).Draw(t, "below") // live values: at most the capacity in force
		if capacity > def && n <= int(def) {
			n = int(def) + 1
		}
		throttling := rapid.Bool().Draw(t, "throttling")
		r := &hotspot.Rule{ID: "big", Resource: "h", MetricType: hotspot.QPS, ParamIndex: 0, Threshold: 1, DurationInSec: d, ParamsMaxCapacity: capacity, SpecificItems: map[interface{}]int64{}}
		if throttling {
			r.ControlBehavior = hotspot.Throttling
			r.MaxQueueingTimeMs = 0
		}
		t0 := hx.Epoch + uint64(rapid.IntRange(0, 999).Draw(t, "t0"))
		hx.Reset(t0)
		if capacity > def && rapid.Bool().Draw(t, "replacesARuleWithASmallerCapacity") {
			// the rule arrives as a modification of a rule that differs in its capacity only (the default one, or 20000 entries):
			// the tables in force afterwards have the configured capacity
			p := cloneRule(r)
			p.ParamsMaxCapacity = 0
			if capacity > 20000 {
				p.ParamsMaxCapacity = 20000
			}
			if _, err := hotspot.LoadRules([]*hotspot.Rule{p}); err != nil {
				t.Fatalf("LoadRules (predecessor): %v", err)
			}
			c.Class("capacity-raised-by-a-reload")
		}
		if _, err := hotspot.LoadRules([]*hotspot.Rule{r}); err != nil || len(hotspot.GetRulesOfResource("h")) != 1 {
			t.Fatalf("LoadRules: %v", err)
		}
		c.Op("capacity=%d (default %d) D=%ds throttling=%v live values=%d", capacity, def, d, throttling, n)
		for v := 0; v < n; v++ {
			e, blk := sentinel.Entry("h", sentinel.WithArgs(v))
			if blk != nil {
				t.Fatalf("first request of value %d was rejected", v)
			}
			e.Exit()
		}
		hx.C.AddMs(uint64(rapid.IntRange(0, 900).Draw(t, "dt")))
		order := rapid.SampledFrom([]string{"same", "reverse"}).Draw(t, "order")
		again := 0
		for k := 0; k < n; k++ {
			v := k
			if order == "reverse" {
				v = n - 1 - k
			}
			e, blk := sentinel.Entry("h", sentinel.WithArgs(v))
			if blk == nil {
				e.Exit()
				again++
				if again == 1 {
					c.Op("value %d admitted again", v)
				}
			}
		}
		c.Op("second round: %d of %d values admitted again", again, n)
		if again > 0 {
			t.Fatalf("%d of %d values were admitted a second time inside one duration (threshold 1, no burst, queueing 0) although the %d live values do not exceed the parameter capacity %d in force (configured %d, default for %d s = %d): their metering state was dropped", again, n, n, eff, capacity, d, def)
		}
		c.ClassIf(capacity > def, "capacity-above-duration-default")
		c.ClassIf(capacity > 20000, "capacity-above-20000")
		c.NonTrivial()
	})
}

// A rule that can never block does not change what the other rules decide, however it came to be loaded: a history runs
// under rule A (argument 0), then the rules are reloaded as [A'] or as [A', B] where A' is A with another threshold and B
// meters argument 1 with an unreachable threshold (same duration, behaviour and capacity as A, so the loader may hand
// statistics around), and the history continues with two-argument requests. Both runs must decide identically.
func TestAddedInertRule(t *testing.T) {
	hx.Check(t, hx.N{Quick: 4000, Thorough: 40000}, func(t *rapid.T, c *hx.Case) {
		vs := []interface{}{"a", "b", 1, 2.5}
		throttling := rapid.Bool().Draw(t, "throttling")
		mk := func(id string, idx int, thr int64) *hotspot.Rule {
			r := &hotspot.Rule{ID: id, Resource: "h", MetricType: hotspot.QPS, ParamIndex: idx, Threshold: thr, DurationInSec: 1, SpecificItems: map[interface{}]int64{}}
			if throttling {
				r.ControlBehavior, r.MaxQueueingTimeMs = hotspot.Throttling, 0
			}
			return r
		}
		T1 := int64(rapid.IntRange(1, 3).Draw(t, "T1"))
		T2 := T1 + int64(rapid.IntRange(1, 2).Draw(t, "more"))
		nB := rapid.IntRange(1, 2).Draw(t, "inertRules")
		perRes := rapid.Bool().Draw(t, "perResource")
		bFirst := rapid.Bool().Draw(t, "inertFirst")
		sameArg := rapid.IntRange(0, 2).Draw(t, "inertOnTheSameArgument") == 0
		if sameArg {
			bFirst = false // (listed before the modified rule it would legitimately be offered the old statistics first: see C14, P30)
		}
		inertIdx := 1
		if sameArg {
			inertIdx = 0
		}
		type rq struct {
			dt     uint64
			v0, v1 int
		}
		var h1, h2 []rq
		for i, n := 0, rapid.IntRange(1, 6).Draw(t, "n1"); i < n; i++ {
			h1 = append(h1, rq{uint64(rapid.SampledFrom([]int{0, 0, 1, 300, 1000}).Draw(t, "dt")), rapid.IntRange(0, len(vs)-1).Draw(t, "v0"), rapid.IntRange(0, len(vs)-1).Draw(t, "v1")})
		}
		for i, n := 0, rapid.IntRange(1, 10).Draw(t, "n2"); i < n; i++ {
			h2 = append(h2, rq{uint64(rapid.SampledFrom([]int{0, 0, 1, 300, 1000}).Draw(t, "dt")), rapid.IntRange(0, len(vs)-1).Draw(t, "v0"), rapid.IntRange(0, len(vs)-1).Draw(t, "v1")})
		}
		t0 := hx.Epoch + uint64(rapid.IntRange(0, 999).Draw(t, "t0"))
		play := func(withInert bool) (out []bool) {
			hx.Reset(t0)
			if _, err := hotspot.LoadRules([]*hotspot.Rule{mk("A", 0, T1)}); err != nil {
				t.Fatalf("load: %v", err)
			}
			do := func(q rq) {
				hx.C.AddMs(q.dt)
				hx.C.TakeSlept()
				e, blk := sentinel.Entry("h", sentinel.WithArgs(vs[q.v0], vs[q.v1]))
				if e != nil {
					e.Exit()
				}
				out = append(out, blk == nil)
			}
			for _, q := range h1 {
				do(q)
			}
			next := []*hotspot.Rule{mk("A", 0, T2)}
			if withInert {
				var inert []*hotspot.Rule
				for i := 0; i < nB; i++ {
					inert = append(inert, mk(fmt.Sprint("B", i), inertIdx, 1000000000+int64(i)))
				}
				if bFirst {
					next = append(inert, next...)
				} else {
					next = append(next, inert...)
				}
			}
			var err error
			if perRes {
				_, err = hotspot.LoadRulesOfResource("h", next)
			} else {
				_, err = hotspot.LoadRules(next)
			}
			if err != nil || len(hotspot.GetRulesOfResource("h")) != len(next) {
				t.Fatalf("reload: %v", err)
			}
			for _, q := range h2 {
				do(q)
			}
			return out
		}
		alone, with := play(false), play(true)
		c.Op("T %d->%d throttling=%v inert rules=%d on argument %d first=%v perResource=%v: %v vs %v", T1, T2, throttling, nB, inertIdx, bFirst, perRes, alone, with)
		c.ClassIf(sameArg, "inert-rules-on-the-same-argument")
		sawBlock := false
		for i := range alone {
			if alone[i] != with[i] {
				t.Fatalf("request %d (of %d before + %d after the reload) is admitted=%v when the reload brings only the modified rule and admitted=%v when it also brings %d rule(s) that can never block: the added rules changed the decision (before/after: %v / %v)", i, len(h1), len(h2), alone[i], with[i], nB, alone, with)
			}
			if !alone[i] {
				sawBlock = true
			}
		}
		c.ClassIf(sawBlock, "has-block")
		if sawBlock {
			c.NonTrivial()
		}
	})
}

// TestSpecificItemsReload: the specific-item table in force is the one of the latest load. A rule with burst 0 is loaded,
// some traffic runs, the rule is reloaded unchanged except for its table (a key replaced by another, a threshold changed,
// a key added or removed, or nothing), everything stays idle for longer than the duration, and then every value receives
// a burst of requests at one instant: exactly min(burst size, the value's threshold per the latest table) are admitted
// (an idle value is granted its threshold, and never more than threshold+burst inside one instant).
func TestSpecificItemsReload(t *testing.T) {
	hx.Check(t, hx.N{Quick: 3000, Thorough: 30000}, func(t *rapid.T, c *hx.Case) {
		vs := []interface{}{"a", "b", 1, 2.5, true}
		G := int64(rapid.IntRange(3, 9).Draw(t, "general"))
		table := map[interface{}]int64{}
		for i, n := 0, rapid.IntRange(0, 3).Draw(t, "entries"); i < n; i++ {
			table[vs[rapid.IntRange(0, len(vs)-1).Draw(t, "key")]] = int64(rapid.SampledFrom([]int{0, 0, 1, 2, 4}).Draw(t, "thr"))
		}
		mk := func(tb map[interface{}]int64) *hotspot.Rule {
			cp := map[interface{}]int64{}
			for k, v := range tb {
				cp[k] = v
			}
			return &hotspot.Rule{ID: "A", Resource: "h", MetricType: hotspot.QPS, ParamIndex: 0, Threshold: G, DurationInSec: 1, SpecificItems: cp}
		}
		hx.Reset(hx.Epoch + uint64(rapid.IntRange(0, 999).Draw(t, "t0")))
		if _, err := hotspot.LoadRules([]*hotspot.Rule{mk(table)}); err != nil {
			t.Fatalf("load: %v", err)
		}
		do := func(v interface{}) bool {
			e, blk := sentinel.Entry("h", sentinel.WithArgs(v))
			if e != nil {
				e.Exit()
			}
			return blk == nil
		}
		for i, n := 0, rapid.IntRange(0, 6).Draw(t, "before"); i < n; i++ {
			hx.C.AddMs(uint64(rapid.SampledFrom([]int{0, 1, 300}).Draw(t, "dt")))
			do(vs[rapid.IntRange(0, len(vs)-1).Draw(t, "v")])
		}
		var keys []interface{} // in vs order: no dependence on map order
		for _, v := range vs {
			if _, ok := table[v]; ok {
				keys = append(keys, v)
			}
		}
		var absent []interface{}
		for _, v := range vs {
			if _, ok := table[v]; !ok {
				absent = append(absent, v)
			}
		}
		edit := rapid.IntRange(0, 4).Draw(t, "edit")
		what := "nothing"
		switch {
		case edit == 0 && len(keys) > 0 && len(absent) > 0: // same size: one key replaced by another
			old := keys[rapid.IntRange(0, len(keys)-1).Draw(t, "old")]
			nk := absent[rapid.IntRange(0, len(absent)-1).Draw(t, "new")]
			delete(table, old)
			table[nk] = int64(rapid.SampledFrom([]int{0, 1, 2, 4}).Draw(t, "thr2"))
			what = fmt.Sprintf("key %v replaced by %v", old, nk)
		case edit == 1 && len(keys) > 0:
			k := keys[rapid.IntRange(0, len(keys)-1).Draw(t, "old")]
			table[k] = (table[k] + int64(rapid.IntRange(1, 2).Draw(t, "delta"))) % 5
			what = fmt.Sprintf("threshold of %v changed", k)
		case edit == 2 && len(absent) > 0:
			nk := absent[rapid.IntRange(0, len(absent)-1).Draw(t, "new")]
			table[nk] = int64(rapid.SampledFrom([]int{0, 1, 2, 4}).Draw(t, "thr2"))
			what = fmt.Sprintf("key %v added", nk)
		case edit == 3 && len(keys) > 0:
			k := keys[rapid.IntRange(0, len(keys)-1).Draw(t, "old")]
			delete(table, k)
			what = fmt.Sprintf("key %v removed", k)
		}
		var err error
		if rapid.Bool().Draw(t, "perResource") {
			_, err = hotspot.LoadRulesOfResource("h", []*hotspot.Rule{mk(table)})
		} else {
			_, err = hotspot.LoadRules([]*hotspot.Rule{mk(table)})
		}
		if err != nil {
			t.Fatalf("reload: %v", err)
		}
		c.Op("general=%d reload: %s -> table %v", G, what, table)
		c.Class("table-edit: " + strings.SplitN(what, " ", 2)[0])
		hx.C.AddMs(uint64(rapid.SampledFrom([]int{1001, 1500, 2000, 61000}).Draw(t, "idle")))
		for _, v := range vs {
			want := G
			if s, ok := table[v]; ok {
				want = s
			}
			N := int64(12)
			if want > N {
				want = N
			}
			got := int64(0)
			for i := int64(0); i < N; i++ {
				if do(v) {
					got++
				}
			}
			if got != want {
				t.Fatalf("after the reload (%s; table now %v, general threshold %d) and an idle period, %d requests for value %v at one instant: %d admitted, the value's threshold is %d", what, table, G, N, v, got, want)
			}
		}
		if what != "nothing" {
			c.NonTrivial()
		}
	})
}

// TestSmallCapacityResidency: capacity below the number of values in play. The capacity is "not exceeded" for a value V
// as long as fewer than `capacity` distinct other values were requested between two consecutive requests of V (V is then
// among the `capacity` most recently requested values at each of its requests). At one instant (no refill) such a value is
// admitted at most threshold+burst tokens in total, however many other values come and go meanwhile. Nothing is asserted
// about a value once `capacity` or more distinct others came in between (it may or may not have been dropped): its count
// starts afresh.
func TestSmallCapacityResidency(t *testing.T) {
	hx.Check(t, hx.N{Quick: 3000, Thorough: 30000}, func(t *rapid.T, c *hx.Case) {
		capacity := rapid.IntRange(1, 4).Draw(t, "capacity")
		T := int64(rapid.IntRange(1, 2).Draw(t, "T"))
		burst := int64(rapid.IntRange(0, 1).Draw(t, "burst"))
		nv := capacity + rapid.IntRange(1, 4).Draw(t, "extraValues")
		hx.Reset(hx.Epoch + uint64(rapid.IntRange(0, 999).Draw(t, "t0")))
		r := &hotspot.Rule{ID: "small", Resource: "h", MetricType: hotspot.QPS, ParamIndex: 0, Threshold: T, BurstCount: burst, DurationInSec: 1, ParamsMaxCapacity: int64(capacity), SpecificItems: map[interface{}]int64{}}
		if _, err := hotspot.LoadRules([]*hotspot.Rule{r}); err != nil {
			t.Fatalf("load: %v", err)
		}
		admitted := make([]int64, nv) // tokens admitted since the value's residency began
		resident := make([]bool, nv)  // continuously among the `capacity` most recently requested values since then
		var recent []int              // distinct values, most recent last
		n := rapid.IntRange(5, 40).Draw(t, "n")
		hot := rapid.IntRange(0, nv-1).Draw(t, "hot")
		sawKept := false
		lastReq := make([]uint64, nv) // instant of the value's latest request (0 = never)
		for i := 0; i < n; i++ {
			if dt := rapid.SampledFrom([]int{0, 0, 0, 0, 300, 1001, 1500}).Draw(t, "dt"); dt > 0 {
				hx.C.AddMs(uint64(dt))
				for k := range admitted { // tokens may have been refilled: the per-instant count starts afresh
					admitted[k] = 0
				}
			}
			v := hot
			if rapid.IntRange(0, 2).Draw(t, "other") > 0 {
				v = rapid.IntRange(0, nv-1).Draw(t, "v")
			}
			idle := lastReq[v] == 0 || hx.C.Ms()-lastReq[v] > 1000
			lastReq[v] = hx.C.Ms()
			// position of v in the recency list: resident iff it is among the last `capacity` distinct values
			pos := -1
			for k, x := range recent {
				if x == v {
					pos = k
				}
			}
			if pos < 0 || len(recent)-pos > capacity {
				resident[v], admitted[v] = false, 0 // (may have been dropped: its count starts afresh, nothing is asserted about this request)
			}
			if pos >= 0 {
				recent = append(recent[:pos], recent[pos+1:]...)
			}
			recent = append(recent, v)
			e, blk := sentinel.Entry("h", sentinel.WithArgs(fmt.Sprint("v", v)))
			if e != nil {
				e.Exit()
			}
			if blk == nil {
				admitted[v]++
			} else if idle {
				t.Fatalf("capacity %d, threshold %d: value v%d was never requested before or not for longer than the duration, and its single-token request is refused (request #%d, recency %v): whatever the cache kept or dropped, an idle value is granted a batch up to its threshold", capacity, T, v, i, recent)
			}
			if resident[v] {
				sawKept = true
				if admitted[v] > T+burst {
					t.Fatalf("capacity %d, threshold %d, burst %d, one instant: value v%d has now been admitted %d tokens although fewer than %d distinct other values were requested between any two of its requests (request #%d, recency %v): its metering state was dropped while the capacity was not exceeded for it", capacity, T, burst, v, admitted[v], capacity, i, recent)
				}
			}
			resident[v] = true
		}
		c.Op("capacity=%d values=%d T=%d burst=%d requests=%d", capacity, nv, T, burst, n)
		if sawKept {
			c.NonTrivial()
		}
	})
}

// TestBlockedByAnotherModule: the resource is also guarded by a system rule (inbound QPS), so some
// requests for a value are rejected by another module before they reach the hotspot check. Durations of 10 s and a history
// of a few seconds: nothing is refilled, so however the other modules' rejections interleave, a value is admitted at most
// threshold+burst tokens in total; and a request the hotspot rule itself lets through while the others reject changes
// nothing for the other values.
func TestBlockedByAnotherModule(t *testing.T) {
	hx.Check(t, hx.N{Quick: 2000, Thorough: 20000}, func(t *rapid.T, c *hx.Case) {
		hx.Reset(hx.Epoch + uint64(rapid.IntRange(0, 999).Draw(t, "t0")))
		T := int64(rapid.IntRange(1, 3).Draw(t, "T"))
		burst := int64(rapid.IntRange(0, 1).Draw(t, "burst"))
		if _, err := hotspot.LoadRules([]*hotspot.Rule{{ID: "h", Resource: "h", MetricType: hotspot.QPS, ControlBehavior: hotspot.Reject, ParamIndex: 0, Threshold: T, BurstCount: burst, DurationInSec: 10, SpecificItems: map[interface{}]int64{}}}); err != nil {
			t.Fatalf("hotspot rule: %v", err)
		}
		q := float64(rapid.IntRange(1, 3).Draw(t, "inboundQpsTrigger"))
		if _, err := system.LoadRules([]*system.Rule{{ID: "sys", MetricType: system.InboundQPS, TriggerCount: q}}); err != nil {
			t.Fatalf("system rule: %v", err)
		}
		admitted := map[string]int64{}
		sysBlocks := 0
		for i, n := 0, rapid.IntRange(3, 30).Draw(t, "n"); i < n; i++ {
			hx.C.AddMs(uint64(rapid.SampledFrom([]int{0, 0, 100, 500, 1000}).Draw(t, "dt")))
			if hx.C.Ms()-hx.Epoch > 8500 {
				break // stay inside the first duration: no refill
			}
			v := rapid.SampledFrom([]string{"a", "a", "b"}).Draw(t, "v")
			e, blk := sentinel.Entry("h", sentinel.WithTrafficType(base.Inbound), sentinel.WithArgs(v))
			if e != nil {
				admitted[v]++
				e.Exit()
			} else if blk.BlockType() == base.BlockTypeSystemFlow {
				sysBlocks++
			}
			c.Op("+%d v=%s -> %v", hx.C.Ms()-hx.Epoch, v, blk)
			if admitted[v] > T+burst {
				t.Fatalf("value %s admitted %d tokens inside one duration of 10 s (threshold %d, burst %d) after %d request(s) were rejected by the system rule: rejections by another module handed tokens back that were never taken", v, admitted[v], T, burst, sysBlocks)
			}
		}
		if sysBlocks > 0 && (admitted["a"] == T+burst || admitted["b"] == T+burst) {
			c.NonTrivial()
		}
	})
}

// TestTwoPacingRules: two pacing (throttling) rules on one resource meter two different arguments. A single caller issues
// requests with the same two values and really sleeps every wait it is asked for (the clock advances while it sleeps): the
// instants at which it is released are, for each rule, at least batch*duration/threshold apart - the waits of the two
// rules are each served in full.
func TestTwoPacingRules(t *testing.T) {
	hx.Check(t, hx.N{Quick: 1500, Thorough: 15000}, func(t *rapid.T, c *hx.Case) {
		hx.Reset(hx.Epoch + uint64(rapid.IntRange(0, 999).Draw(t, "t0")))
		hx.C.Advance = true
		defer func() { hx.C.Advance = false }()
		ts := rapid.Permutation([]int64{1, 2, 5, 10, 20}).Draw(t, "thresholds")
		mk := func(id string, idx int, T int64) *hotspot.Rule {
			return &hotspot.Rule{ID: id, Resource: "h", MetricType: hotspot.QPS, ControlBehavior: hotspot.Throttling, ParamIndex: idx, Threshold: T, DurationInSec: 1, MaxQueueingTimeMs: 3600000, SpecificItems: map[interface{}]int64{}}
		}
		rules := []*hotspot.Rule{mk("A", 0, ts[0]), mk("B", 1, ts[1])}
		if rapid.Bool().Draw(t, "thirdRule") {
			rules = append(rules, mk("C", 2, ts[2]))
		}
		if _, err := hotspot.LoadRules(rules); err != nil || len(hotspot.GetRulesOfResource("h")) != len(rules) {
			t.Fatalf("load: %v", err)
		}
		need := uint64(0)
		for _, r := range rules {
			if n := uint64(1000 / r.Threshold); n > need {
				need = n
			}
		}
		var released []uint64
		for i, n := 0, rapid.IntRange(2, 6).Draw(t, "n"); i < n; i++ {
			if rapid.IntRange(0, 3).Draw(t, "pause") == 0 {
				hx.C.AddMs(uint64(rapid.SampledFrom([]int{1, 50, 400}).Draw(t, "dt")))
			}
			e, blk := sentinel.Entry("h", sentinel.WithArgs("x", "y", "z"))
			if blk != nil {
				t.Fatalf("request %d rejected (queueing limit one hour): %v", i, blk)
			}
			e.Exit()
			released = append(released, hx.C.Ms())
			if i > 0 && released[i]-released[i-1] < need {
				t.Fatalf("pacing rules %v/s on three arguments of one resource: request %d was released %d ms after request %d, the slowest rule spaces its value's requests %d ms apart (release instants +%v): a wait was cut short by what the caller had already slept for another rule", ts[:len(rules)], i, released[i]-released[i-1], i-1, need, released)
			}
		}
		c.Op("thresholds %v: released at %v (need %d ms)", ts[:len(rules)], released, need)
		c.NonTrivial()
	})
}
