// C04: isolation rule caps in-flight requests at the threshold.
package c04

import (
	"errors"
	"fmt"
	"testing"

	sentinel "github.com/alibaba/sentinel-golang/api"
	"github.com/alibaba/sentinel-golang/core/base"
	"github.com/alibaba/sentinel-golang/core/isolation"
	"pgregory.net/rapid"

	"verif/harness/hx"
	"verif/harness/sched"
)

func TestMain(m *testing.M) { hx.Main(m, "C04") }

var thresholds = []uint64{1, 2, 3, 4, 5, 1 << 31, 1<<32 - 1}
var batches = []uint64{1, 1, 1, 2, 3, 1 << 31, 1<<32 - 1, 1<<32 - 2}

type mrule struct {
	id  string
	res string
	n   uint64
}

func drawRules(t *rapid.T, c *hx.Case, resources []string, big bool) []mrule {
	var ms []mrule
	var rules []*isolation.Rule
	for _, res := range resources {
		nr := rapid.IntRange(0, 3).Draw(t, "nrules")
		for i := 0; i < nr; i++ {
			if k := rapid.IntRange(0, 7).Draw(t, "invalidRule"); k < 2 { // an invalid rule somewhere in the list: ignored, the others stay in force
				bad := &isolation.Rule{ID: fmt.Sprintf("%s-invalid%d", res, i), Resource: res, MetricType: isolation.Concurrency, Threshold: 0}
				if k == 1 {
					bad.MetricType, bad.Threshold = isolation.MetricType(1), 1
				}
				rules = append(rules, bad)
				c.Op("invalid rule %s", bad.ID)
				c.Class("invalid-rule-in-list")
				continue
			}
			n := thresholds[rapid.IntRange(0, len(thresholds)-1).Draw(t, "N")]
			if !big && n > 5 {
				n = 3
			}
			m := mrule{id: fmt.Sprintf("%s%d", res, i), res: res, n: n}
			ms = append(ms, m)
			rules = append(rules, &isolation.Rule{ID: m.id, Resource: res, MetricType: isolation.Concurrency, Threshold: uint32(n)})
			c.Op("rule %s N=%d", m.id, n)
		}
	}
	if _, err := isolation.LoadRules(rules); err != nil {
		t.Fatalf("LoadRules: %v", err)
	}
	if len(ms) > 0 && rapid.IntRange(0, 3).Draw(t, "invalidOnlyInBetween") == 0 {
		// a resource is then given a list of invalid rules only (nothing is in force for it), and the first list is loaded again:
		// it is in force again
		res := ms[rapid.IntRange(0, len(ms)-1).Draw(t, "resourceGivenInvalidRules")].res
		if _, err := isolation.LoadRulesOfResource(res, []*isolation.Rule{{ID: "bad", Resource: res, MetricType: isolation.Concurrency, Threshold: 0}}); err != nil {
			c.Op("invalid-only list for %s: %v", res, err)
		}
		if got := isolation.GetRulesOfResource(res); len(got) != 0 {
			t.Fatalf("after loading only invalid rules for %s the module still reports %v", res, got)
		}
		var again []*isolation.Rule
		for _, r := range rules {
			x := *r
			again = append(again, &x)
		}
		if _, err := isolation.LoadRules(again); err != nil {
			t.Fatalf("LoadRules (again): %v", err)
		}
		c.Class("valid-rules-loaded-again-after-an-invalid-only-list")
	}
	return ms
}

// decide returns the id of the first rule that rejects a request of batch b when `live` entries
// are in flight on res ("" = admitted). No wrap-around: plain integers.
func decide(ms []mrule, res string, live uint64, b uint64) string {
	for _, m := range ms {
		if m.res == res && live+b > m.n {
			return m.id
		}
	}
	return ""
}

// panicStat is a user statistic slot ordered after the library's own stat slot; it panics in OnEntryPassed
// for entries flagged with 1 (the chain recovers and the request stays admitted). Capacity accounting must
// not depend on it: an admitted entry that exits frees its unit.
type panicStat struct{}

func (panicStat) Order() uint32 { return 1500 }
func (panicStat) OnEntryPassed(ctx *base.EntryContext) {
	if ctx.Input.Flag == 1 {
		panic("user statistic slot panics")
	}
}
func (panicStat) OnEntryBlocked(*base.EntryContext, *base.BlockError) {}
func (panicStat) OnCompleted(ctx *base.EntryContext) {
	if ctx.Input.Flag == 3 { // a later statistic slot fails while the entry completes: the capacity is freed all the same
		panic("user statistic slot panics on completion")
	}
}

// panicCheck is a user rule-check slot ordered before every built-in one; it panics for entries flagged with 2. The chain
// recovers, the request is admitted without having been checked or counted by anybody, and its exit frees nothing: such an
// entry is invisible to the isolation rule from beginning to end.
type panicCheck struct{}

func (panicCheck) Order() uint32 { return 500 }
func (panicCheck) Check(ctx *base.EntryContext) *base.TokenResult {
	if ctx.Input.Flag == 2 {
		panic("user rule-check slot panics")
	}
	return nil
}

func TestSequential(t *testing.T) {
	hx.Check(t, hx.N{Quick: 36000, Thorough: 400000}, func(t *rapid.T, c *hx.Case) {
		hx.Reset(hx.Epoch + uint64(rapid.IntRange(0, 999).Draw(t, "t0")))
		exP5 := hx.Known("P5")
		ms := drawRules(t, c, []string{"a", "b"}, true)
		var chainOpt []sentinel.EntryOption
		userSlot := rapid.IntRange(0, 3).Draw(t, "userStatSlot") == 0
		if userSlot {
			sc := sentinel.BuildDefaultSlotChain()
			sc.AddStatSlot(panicStat{})
			sc.AddRuleCheckSlot(panicCheck{})
			chainOpt = []sentinel.EntryOption{sentinel.WithSlotChain(sc)}
			c.Class("custom-chain-with-panicking-user-stat-slot")
		}
		type lv struct {
			id  int
			e   *base.SentinelEntry
			res string
		}
		var lives []lv
		var ghosts []*base.SentinelEntry
		var held []*base.BlockError // block errors handed out: they stay as they were, whatever is rejected afterwards
		var heldAs []string
		defer func() {
			for k, b := range held {
				if now := hx.BlockSnapshot(b); now != heldAs[k] {
					t.Fatalf("a block error handed to the caller changed afterwards: it was {%s}, now it reads {%s}", heldAs[k], now)
				}
			}
		}()
		defer func() {
			for _, l := range lives {
				l.e.Exit()
			}
			for _, g := range ghosts {
				g.Exit()
			}
		}()
		live := map[string]uint64{}
		n := rapid.IntRange(1, 50).Draw(t, "n")
		next := 0
		phase := map[string]int{} // per resource: 0 nothing, 1 saw block, 2 saw exit after block, 3 saw pass after that
		outOfOrder, bigBatch, longFlight := false, false, false
		mixTypes := rapid.IntRange(0, 2).Draw(t, "mixResourceTypes") == 1
		c.ClassIf(mixTypes, "mixed-resource-classifications")
		for i := 0; i < n; i++ {
			op := rapid.IntRange(0, 5).Draw(t, "op")
			switch {
			case op == 5: // time passes (entries may stay in flight for hours): the bound is about in-flight entries only
				dt := uint64(rapid.SampledFrom([]int{1, 999, 10000, 59999, 60000, 60001, 600000, 86400000}).Draw(t, "dt"))
				hx.C.AddMs(dt)
				c.Op("advance %d ms", dt)
				for _, g := range ghosts { // entries admitted by panic recovery leave: nothing is freed
					g.Exit()
				}
				ghosts = nil
				longFlight = longFlight || (dt > 60000 && len(lives) > 0)
			case op <= 2:
				res := rapid.SampledFrom([]string{"a", "b"}).Draw(t, "res")
				b := batches[rapid.IntRange(0, len(batches)-1).Draw(t, "batch")]
				if b >= 1<<31 {
					if exP5 {
						b = 2
						c.Excluded("P5")
					} else {
						bigBatch = true
					}
				}
				exp := decide(ms, res, live[res], b)
				opts := append([]sentinel.EntryOption{}, chainOpt...)
				if !(b == 1 && rapid.Bool().Draw(t, "plainCall")) { // a single unit is asked for either explicitly or by leaving the option out
					opts = append(opts, sentinel.WithBatchCount(uint32(b)))
				}
				if mixTypes { // the same resource name entered under several classifications and traffic types
					opts = append(opts, sentinel.WithResourceType(base.ResourceType(rapid.IntRange(0, 6).Draw(t, "resType"))))
					if rapid.Bool().Draw(t, "inbound") {
						opts = append(opts, sentinel.WithTrafficType(base.Inbound))
					}
				}
				ghost := false
				if userSlot {
					switch rapid.IntRange(0, 5).Draw(t, "slotPanics") {
					case 0, 1:
						opts = append(opts, sentinel.WithFlag(1))
					case 2:
						opts = append(opts, sentinel.WithFlag(2))
						ghost = true
					case 3:
						opts = append(opts, sentinel.WithFlag(3))
						c.Class("user-statistic-slot-panics-on-completion")
					}
				}
				e, blk := sentinel.Entry(res, opts...)
				c.Op("Entry(%s,batch %d) live=%d -> blocked=%v ghost=%v", res, b, live[res], blk != nil, ghost)
				if ghost { // admitted by the chain's recovery, never counted; exits now or later, in either case freeing nothing
					if blk != nil {
						t.Fatalf("a request whose rule-check slot panicked was blocked: %v", blk)
					}
					c.Class("entry-admitted-by-panic-recovery")
					if rapid.Bool().Draw(t, "ghostExitsNow") {
						e.Exit()
					} else {
						ghosts = append(ghosts, e)
					}
					continue
				}
				if (exp != "") != (blk != nil) {
					if blk == nil {
						lives = append(lives, lv{next, e, res})
					}
					t.Fatalf("Entry(%s, batch %d) with %d entries in flight: reference says blocked-by=%q, library returned block=%v", res, b, live[res], exp, blk)
				}
				if blk != nil {
					if blk.BlockType() != base.BlockTypeIsolation {
						t.Fatalf("block type %v", blk.BlockType())
					}
					if r, ok := blk.TriggeredRule().(*isolation.Rule); !ok || r.ID != exp {
						t.Fatalf("blocked by %v, first exhausted rule is %s", blk.TriggeredRule(), exp)
					}
					if v, ok := blk.TriggeredValue().(uint32); !ok || uint64(v) != live[res] {
						t.Fatalf("triggered value %v, in-flight entries %d", blk.TriggeredValue(), live[res])
					}
					if phase[res] == 0 {
						phase[res] = 1
					}
					held = append(held, blk)
					heldAs = append(heldAs, hx.BlockSnapshot(blk))
				} else {
					if hk := rapid.IntRange(0, 5).Draw(t, "exitHandlers"); hk < 2 { // exit handlers, returning nil or an error: the exit still frees the capacity
						var herr error
						if hk == 1 {
							herr = errors.New("exit handler failed")
						}
						e.WhenExit(func(*base.SentinelEntry, *base.EntryContext) error { return herr })
						if rapid.Bool().Draw(t, "secondHandler") {
							e.WhenExit(func(*base.SentinelEntry, *base.EntryContext) error { return nil })
						}
						c.Class("entry-with-exit-handlers")
					}
					lives = append(lives, lv{next, e, res})
					next++
					live[res]++
					if phase[res] == 2 {
						phase[res] = 3
					}
				}
			case len(lives) > 0:
				k := rapid.IntRange(0, len(lives)-1).Draw(t, "k")
				if k != len(lives)-1 && k != 0 {
					outOfOrder = true
				}
				l := lives[k]
				lives = append(lives[:k], lives[k+1:]...)
				if op == 4 {
					l.e.Exit(base.WithError(errors.New("biz")))
				} else {
					l.e.Exit()
				}
				live[l.res]--
				c.Op("Exit(#%d on %s)", l.id, l.res)
				if phase[l.res] == 1 {
					phase[l.res] = 2
				}
			}
			for _, m := range ms {
				if live[m.res] > m.n {
					t.Fatalf("in-flight entries of %s = %d exceed threshold %d of rule %s", m.res, live[m.res], m.n, m.id)
				}
			}
		}
		reuse := phase["a"] == 3 || phase["b"] == 3
		c.ClassIf(reuse, "block-exit-pass")
		c.ClassIf(outOfOrder, "out-of-order-exit")
		c.ClassIf(bigBatch, "batch>=2^31")
		c.ClassIf(longFlight, "entry-in-flight-longer-than-60s")
		if reuse || outOfOrder || bigBatch {
			c.NonTrivial()
		}
	})
}

func TestAdmissionPathInterleavings(t *testing.T) {
	hx.Check(t, hx.N{Quick: 18000, Thorough: 200000}, func(t *rapid.T, c *hx.Case) {
		hx.Reset(hx.Epoch + uint64(rapid.IntRange(0, 999).Draw(t, "t0")))
		s := sched.New("chain.checked")
		defer s.Close()
		ms := drawRules(t, c, []string{"a"}, false)
		const k = 3
		type req struct {
			task *sched.Task
			b    uint64
			e    *base.SentinelEntry
			blk  *base.BlockError
			exp  string
			seen uint64
		}
		var inPath []*req
		var held []*base.SentinelEntry
		defer func() {
			for _, e := range held {
				e.Exit()
			}
		}()
		liveRec := uint64(0) // entries whose statistic phase has run and that have not exited
		maxPark := 0
		finish := func(j int) {
			r := inPath[j]
			inPath = append(inPath[:j], inPath[j+1:]...)
			if !s.Finish(r.task, 1000) {
				t.Fatalf("Entry did not terminate")
			}
			if r.task.Panic != nil {
				t.Fatalf("Entry panicked: %v", r.task.Panic)
			}
			c.Op("Finish(batch %d) -> blocked=%v", r.b, r.blk != nil)
			if (r.exp != "") != (r.blk != nil) {
				t.Fatalf("decision of a request (batch %d) differs from the reference at its check instant (%d recorded in flight): expected blocked-by=%q, got block=%v", r.b, r.seen, r.exp, r.blk)
			}
			if r.blk == nil {
				liveRec++
				held = append(held, r.e)
			} else if v, ok := r.blk.TriggeredValue().(uint32); !ok || uint64(v) != r.seen {
				t.Fatalf("triggered value %v, recorded in flight at the check instant %d", r.blk.TriggeredValue(), r.seen)
			}
		}
		n := rapid.IntRange(1, 30).Draw(t, "n")
		for i := 0; i < n; i++ {
			op := rapid.IntRange(0, 3).Draw(t, "op")
			switch {
			case op <= 1 && len(inPath) < k:
				r := &req{b: uint64(rapid.IntRange(1, 3).Draw(t, "b")), seen: liveRec}
				r.exp = decide(ms, "a", liveRec, r.b)
				r.task = s.Spawn(func() { r.e, r.blk = sentinel.Entry("a", sentinel.WithBatchCount(uint32(r.b))) })
				if p := s.Step(r.task); p != "chain.checked" {
					t.Fatalf("Entry did not reach the admission-path yield point (at %q)", p)
				}
				inPath = append(inPath, r)
				if len(inPath) > maxPark {
					maxPark = len(inPath)
				}
				c.Op("Begin(batch %d) recorded-live=%d parked=%d", r.b, liveRec, len(inPath))
			case op == 2 && len(inPath) > 0:
				finish(rapid.IntRange(0, len(inPath)-1).Draw(t, "j"))
			case op == 3 && len(held) > 0:
				j := rapid.IntRange(0, len(held)-1).Draw(t, "j")
				held[j].Exit()
				held = append(held[:j], held[j+1:]...)
				liveRec--
				c.Op("Exit")
			}
			for _, m := range ms {
				if liveRec > m.n+uint64(k-1) {
					t.Fatalf("in-flight entries %d exceed N(%d)+k-1", liveRec, m.n)
				}
			}
		}
		for len(inPath) > 0 {
			finish(0)
		}
		c.ClassIf(maxPark >= 2, ">=2-in-admission-path")
		if maxPark >= 2 {
			c.NonTrivial()
		}
	})
}

// P5: with one entry in flight a batch of 2^32-1 must be rejected under N=1.
func TestP_RegressP5(t *testing.T) {
	hx.Plain(t, func(c *hx.Case) {
		hx.Reset(hx.Epoch)
		isolation.LoadRules([]*isolation.Rule{{Resource: "p5", MetricType: isolation.Concurrency, Threshold: 1}})
		e1, _ := sentinel.Entry("p5")
		e2, blk := sentinel.Entry("p5", sentinel.WithBatchCount(0xFFFFFFFF))
		c.Op("N=1; Entry(p5); Entry(p5, batch 0xFFFFFFFF)")
		if e2 != nil {
			e2.Exit()
		}
		e1.Exit()
		hx.Witness(t, "C04", "P5", "N=1, one entry in flight, batch 0xFFFFFFFF is admitted (uint32 wrap-around)", blk == nil)
		c.NonTrivial()
	})
}
