// C13: only valid, latest-loaded rules are in force; reported rules equal enforced.
package c13

import (
	"fmt"
	"reflect"
	"sort"
	"strings"
	"testing"

	"pgregory.net/rapid"

	"verif/harness/hx"
)

func TestMain(m *testing.M) { hx.Main(m, "C13") }

func keysOf(a *adapter, rs []any) []string {
	out := make([]string, 0, len(rs))
	for _, r := range rs {
		out = append(out, a.key(r))
	}
	return out
}

// validOf: the rules of a list that are in force for res after loading it (model side).
func validOf(a *adapter, list []any, res string, perResLoad bool) []any {
	var out []any
	for _, r := range list {
		if a.isNil(r) {
			continue
		}
		if !perResLoad && a.resOf(r) != res {
			continue
		}
		out = append(out, r)
	}
	if a.single { // one rule per resource: the last one submitted wins, and only if it is valid
		if len(out) == 0 {
			return nil
		}
		last := out[len(out)-1]
		if a.valid(last) {
			return []any{last}
		}
		return nil
	}
	var v []any
	for _, r := range out {
		if a.valid(r) {
			v = append(v, r)
		}
	}
	return v
}

func cloneList(a *adapter, l []any) []any {
	out := make([]any, len(l))
	for i, r := range l {
		out[i] = a.clone(r)
	}
	return out
}

func describe(a *adapter, l []any) string {
	var sb strings.Builder
	for _, r := range l {
		if a.isNil(r) {
			sb.WriteString("<nil> ")
		} else {
			fmt.Fprintf(&sb, "{%s valid=%v} ", a.key(r), a.valid(r))
		}
	}
	return sb.String()
}

func runModule(t *testing.T, mk func() *adapter, n hx.N) {
	hx.Check(t, n, func(t *rapid.T, c *hx.Case) {
		curCase = c
		a := mk()
		t0 := hx.Epoch + uint64(rapid.IntRange(0, 999).Draw(t, "t0"))
		caseCfg := hx.DefaultStat
		if k := rapid.IntRange(0, 3*len(hx.StatCfgs)).Draw(t, "statConfig"); k < len(hx.StatCfgs) { // one case in three under a legal non-default statistic configuration
			caseCfg = hx.StatCfgs[k]
		}
		c.ClassIf(caseCfg != hx.DefaultStat, "non-default-statistic-configuration")
		hx.ResetCfg(t0, caseCfg, nil)
		if err := a.clearAll(); err != nil {
			t.Fatalf("%s: clear at case start: %v", a.name, err)
		}
		allowNil := !hx.Known("P10")
		if !allowNil {
			c.Excluded("P10")
		}
		model := map[string][]any{}
		guard := func(what string, f func()) {
			defer func() {
				if r := recover(); r != nil {
					t.Fatalf("%s: %s panicked out to the caller: %v", a.name, what, r)
				}
			}()
			f()
		}
		check := func(after string) {
			var want []string
			for _, res := range a.resources {
				w := keysOf(a, model[res])
				var got []string
				guard("GetRulesOfResource", func() { got = keysOf(a, a.getRes(res)) })
				if a.name == "system" { // one flat list kept in a map by metric type: compare as multisets
					sort.Strings(got)
					sort.Strings(w)
				}
				if fmt.Sprint(got) != fmt.Sprint(w) {
					t.Fatalf("%s after %s: rules reported for resource %q\n  got  %v\n  want %v (valid rules of the most recent load, in order)", a.name, after, res, got, w)
				}
				want = append(want, w...)
			}
			var gotAll []string
			guard("GetRules", func() { gotAll = keysOf(a, a.getAll()) })
			sort.Strings(gotAll)
			sort.Strings(want)
			if fmt.Sprint(gotAll) != fmt.Sprint(want) {
				t.Fatalf("%s after %s: GetRules()\n  got  %v\n  want %v", a.name, after, gotAll, want)
			}
		}
		genList := func(res string, whole bool) []any {
			k := rapid.IntRange(0, 5).Draw(t, "len")
			var l []any
			for i := 0; i < k; i++ {
				r := res
				if whole {
					r = rapid.SampledFrom(a.resources).Draw(t, "ruleRes")
				}
				l = append(l, a.gen(t, r, allowNil))
			}
			return l
		}
		sawWhole, sawPerRes, sawInvalid, sawValid := false, false, false, false
		sawEdit, sawTwin := false, false
		type past struct {
			res  string // "" = whole set
			list []any
		}
		var history []past
		var replay *past
		nops := rapid.IntRange(1, 12).Draw(t, "ops")
		for i := 0; i < nops; i++ {
			kind := rapid.IntRange(0, 7).Draw(t, "op")
			replay = nil
			if kind == 7 { // an earlier list with ONE field of ONE rule changed (taken from a freshly drawn rule of the module):
				// reaches "same as the current rules" short cuts and per-rule equality tests that forget a field
				kind = 0
				if len(history) > 0 {
					h := history[rapid.IntRange(0, len(history)-1).Draw(t, "which")]
					l := cloneList(a, h.list)
					var idx []int
					for j, r := range l {
						if !a.isNil(r) {
							idx = append(idx, j)
						}
					}
					if len(idx) > 0 {
						j := idx[rapid.IntRange(0, len(idx)-1).Draw(t, "rule")]
						if a.family != nil && rapid.IntRange(0, 2).Draw(t, "switchFamily") == 0 {
							a.family(t, l[j])
							c.Op("edit: rule %d of an earlier list changes its strategy/behaviour family: %s", j, a.key(l[j]))
							sawEdit = true
						} else if fv := reflect.ValueOf(l[j]).Elem().FieldByName("Threshold"); fv.IsValid() && fv.Kind() == reflect.Float64 && rapid.IntRange(0, 3).Draw(t, "nudgeThreshold") == 0 {
							// the threshold alone moves by 1 or 10, whatever its magnitude (2000000000 and 2000000010 are different thresholds)
							d := float64(rapid.SampledFrom([]int{1, 10}).Draw(t, "by"))
							fv.SetFloat(fv.Float() + d)
							c.Op("edit: the threshold of rule %d of an earlier list grows by %v to %v", j, d, fv.Float())
							sawEdit = true
						} else if len(idx) > 1 && rapid.IntRange(0, 3).Draw(t, "reorder") == 0 {
							// the same rules in another order, nothing else changed: the latest order is the one reported and consulted
							j2 := idx[rapid.IntRange(0, len(idx)-1).Draw(t, "swapWith")]
							l[j], l[j2] = l[j2], l[j]
							c.Op("edit: rules %d and %d of an earlier list change places", j, j2)
							sawEdit = sawEdit || j != j2
						} else if rapid.IntRange(0, 2).Draw(t, "twin") == 0 {
							// the same rule listed twice (equal values, distinct objects), next to each other or at the end
							tw := a.clone(l[j])
							if rapid.Bool().Draw(t, "adjacent") {
								l = append(l[:j+1:j+1], append([]any{tw}, l[j+1:]...)...)
							} else {
								l = append(l, tw)
							}
							c.Op("edit: rule %d of an earlier list is listed twice", j)
							sawTwin = true
						} else {
							donor := a.gen(t, a.resOf(l[j]), false)
							dv, rv := reflect.ValueOf(donor).Elem(), reflect.ValueOf(l[j]).Elem()
							var fields []int
							for f := 0; f < rv.NumField(); f++ {
								if nm := rv.Type().Field(f).Name; rv.Field(f).CanSet() && nm != "Resource" {
									fields = append(fields, f)
								}
							}
							f := fields[rapid.IntRange(0, len(fields)-1).Draw(t, "field")]
							if fv := rv.Field(f); fv.Kind() == reflect.Map && fv.Len() > 0 && rapid.Bool().Draw(t, "moveItem") {
								// a table-valued field: one entry moves to another key, value and table size unchanged
								keys := fv.MapKeys()
								sort.Slice(keys, func(a, b int) bool { return fmt.Sprint(keys[a].Interface()) < fmt.Sprint(keys[b].Interface()) })
								k := keys[rapid.IntRange(0, len(keys)-1).Draw(t, "item")]
								v := fv.MapIndex(k)
								nk := rapid.SampledFrom([]interface{}{0, 1, 2, "x"}).Draw(t, "newKey")
								if !fv.MapIndex(reflect.ValueOf(&nk).Elem()).IsValid() {
									nm := reflect.MakeMap(fv.Type())
									for _, kk := range keys {
										if kk.Interface() != k.Interface() {
											nm.SetMapIndex(kk, fv.MapIndex(kk))
										}
									}
									nm.SetMapIndex(reflect.ValueOf(&nk).Elem(), v)
									fv.Set(nm)
									c.Op("edit: item %v of field %s of rule %d of an earlier list moves to key %v", k.Interface(), rv.Type().Field(f).Name, j, nk)
								}
							} else {
								rv.Field(f).Set(dv.Field(f))
								c.Op("edit: field %s of rule %d of an earlier list := %v", rv.Type().Field(f).Name, j, dv.Field(f).Interface())
							}
							sawEdit = true
						}
						h2 := past{h.res, l}
						history = append(history, h2)
						replay = &h2
						if h.res != "" {
							kind = 1
						}
					}
				}
			}
			if kind == 6 { // submit an earlier list again (reaches stale "same as current" caches after clears)
				if len(history) == 0 {
					kind = 0
				} else {
					h := history[rapid.IntRange(0, len(history)-1).Draw(t, "which")]
					replay = &h
					kind = 0
					if h.res != "" {
						kind = 1
					}
				}
			}
			if !a.perRes {
				kind = map[int]int{0: 0, 1: 0, 2: 2, 3: 2, 4: 4, 5: 4, 6: 0}[kind]
			}
			switch kind {
			case 0, 4: // whole-set load (+ identical reload)
				var l []any
				if replay != nil {
					l = replay.list
				} else {
					l = genList("", true)
					history = append(history, past{"", l})
				}
				for _, r := range l {
					if !a.isNil(r) {
						if a.valid(r) {
							sawValid = true
						} else {
							sawInvalid = true
						}
					}
				}
				sawWhole = true
				var err error
				guard("LoadRules", func() { _, err = a.loadAll(cloneList(a, l)) })
				c.Op("LoadRules([%s]) -> err=%v", describe(a, l), err)
				next := map[string][]any{}
				for _, res := range a.resources {
					next[res] = validOf(a, l, res, false)
				}
				if err != nil { // a load that reports an error may have been refused as a whole: accept either state
					if ok := matches(a, model, guard); !ok {
						model = next
					}
				} else {
					model = next
				}
				check("LoadRules")
				if err == nil && len(l) > 0 && kind == 4 {
					var changed bool
					guard("LoadRules(identical)", func() { changed, err = a.loadAll(cloneList(a, l)) })
					c.Op("LoadRules(identical fresh copies) -> changed=%v err=%v", changed, err)
					if changed || err != nil {
						t.Fatalf("%s: reloading an identical rule list (fresh objects) reported changed=%v err=%v, want unchanged: [%s]", a.name, changed, err, describe(a, l))
					}
					check("identical reload")
				}
			case 1, 5: // per-resource load (+ identical reload)
				res := rapid.SampledFrom(a.resources).Draw(t, "res")
				var l []any
				if replay != nil {
					res, l = replay.res, replay.list
				} else {
					l = genList(res, false)
				}
				l = append([]any{}, l...) // never edit a list the history shares
				if a.single && len(l) > 1 {
					l = l[len(l)-1:]
				}
				// rules naming another (or no) resource violate the documented precondition of the per-resource path
				for j, r := range l {
					if !a.isNil(r) && a.resOf(r) != res {
						l[j] = nil
					}
				}
				var l2 []any
				for _, r := range l {
					if r != nil {
						l2 = append(l2, r)
					}
				}
				l = l2
				if replay == nil {
					history = append(history, past{res, l})
				}
				for _, r := range l {
					if !a.isNil(r) {
						if a.valid(r) {
							sawValid = true
						} else {
							sawInvalid = true
						}
					}
				}
				sawPerRes = true
				var err error
				guard("LoadRulesOfResource", func() { _, err = a.loadRes(res, cloneList(a, l)) })
				c.Op("LoadRulesOfResource(%s, [%s]) -> err=%v", res, describe(a, l), err)
				prev := model[res]
				model[res] = validOf(a, l, res, true)
				if err != nil {
					var got []string
					guard("GetRulesOfResource", func() { got = keysOf(a, a.getRes(res)) })
					if fmt.Sprint(got) == fmt.Sprint(keysOf(a, prev)) {
						model[res] = prev // refused as a whole
					}
				}
				check("LoadRulesOfResource(" + res + ")")
				nonEmpty := 0
				for _, r := range l {
					if !a.isNil(r) {
						nonEmpty++
					}
				}
				if err == nil && nonEmpty > 0 && len(l) > 0 && kind == 5 {
					var changed bool
					guard("LoadRulesOfResource(identical)", func() { changed, err = a.loadRes(res, cloneList(a, l)) })
					c.Op("LoadRulesOfResource(%s, identical fresh copies) -> changed=%v err=%v", res, changed, err)
					if changed || err != nil {
						t.Fatalf("%s: reloading an identical per-resource rule list (fresh objects) reported changed=%v err=%v, want unchanged: [%s]", a.name, changed, err, describe(a, l))
					}
					check("identical per-resource reload")
				}
			case 2:
				var err error
				guard("ClearRules", func() { err = a.clearAll() })
				c.Op("ClearRules() -> %v", err)
				if err != nil {
					t.Fatalf("%s: ClearRules: %v", a.name, err)
				}
				model = map[string][]any{}
				check("ClearRules")
			case 3:
				res := rapid.SampledFrom(a.resources).Draw(t, "res")
				var err error
				guard("ClearRulesOfResource", func() { err = a.clearRes(res) })
				c.Op("ClearRulesOfResource(%s) -> %v", res, err)
				if err != nil {
					t.Fatalf("%s: ClearRulesOfResource: %v", a.name, err)
				}
				delete(model, res)
				check("ClearRulesOfResource(" + res + ")")
			}
		}
		// enforcement: the decisions under the rules left in force equal the decisions under a fresh
		// load of exactly the model's (valid, latest) rules
		if a.probe != nil {
			plan := drawProbe(t, a.resources)
			var tr1, tr2 string
			guard("probe traffic", func() { tr1 = a.probe(t0, plan) })
			hx.ResetCfg(t0, caseCfg, nil)
			var fresh []any
			for _, res := range a.resources {
				fresh = append(fresh, cloneList(a, model[res])...)
			}
			guard("LoadRules(model)", func() {
				if _, err := a.loadAll(fresh); err != nil {
					t.Fatalf("%s: loading the model's valid rules failed: %v", a.name, err)
				}
			})
			guard("probe traffic", func() { tr2 = a.probe(t0, plan) })
			c.Op("probe %d requests: %s", len(plan), tr1)
			if tr1 != tr2 {
				t.Fatalf("%s: decisions under the rules left in force by the load history differ from decisions under a fresh load of the valid, latest rules\n  history: %s\n  fresh:   %s\n  model: %v", a.name, tr1, tr2, modelText(a, model))
			}
			c.ClassIf(strings.Contains(tr1, "B"), "probe-has-blocks")
		}
		_ = a.clearAll()
		c.ClassIf(sawWhole && sawPerRes, "whole+per-resource")
		c.ClassIf(sawInvalid, "has-invalid-rule")
		c.ClassIf(sawEdit, "one-field-edit-of-an-earlier-list")
		c.ClassIf(sawTwin, "a-rule-listed-twice")
		if sawWhole && (sawPerRes || !a.perRes) && sawInvalid && sawValid {
			c.NonTrivial()
		}
	})
}

func matches(a *adapter, model map[string][]any, guard func(string, func())) bool {
	ok := true
	for _, res := range a.resources {
		var got []string
		guard("GetRulesOfResource", func() { got = keysOf(a, a.getRes(res)) })
		w := keysOf(a, model[res])
		if a.name == "system" {
			sort.Strings(got)
			sort.Strings(w)
		}
		if fmt.Sprint(got) != fmt.Sprint(w) {
			ok = false
		}
	}
	return ok
}

func modelText(a *adapter, model map[string][]any) string {
	var sb strings.Builder
	for _, res := range a.resources {
		fmt.Fprintf(&sb, "%s:%v ", res, keysOf(a, model[res]))
	}
	return sb.String()
}

func TestFlow(t *testing.T)      { runModule(t, flowAdapter, hx.N{Quick: 6000, Thorough: 64000}) }
func TestIsolation(t *testing.T) { runModule(t, isolationAdapter, hx.N{Quick: 6000, Thorough: 64000}) }
func TestHotspot(t *testing.T)   { runModule(t, hotspotAdapter, hx.N{Quick: 6000, Thorough: 64000}) }
func TestCircuitBreaker(t *testing.T) {
	runModule(t, circuitbreakerAdapter, hx.N{Quick: 6000, Thorough: 64000})
}
func TestSystem(t *testing.T)  { runModule(t, systemAdapter, hx.N{Quick: 6000, Thorough: 64000}) }
func TestOutlier(t *testing.T) { runModule(t, outlierAdapter, hx.N{Quick: 6000, Thorough: 64000}) }

// P24 (known): a valid circuit-breaking rule of an unsupported strategy is reported by the getters although no breaker enforces it.
func TestP_KnownP24(t *testing.T) {
	hx.Plain(t, func(c *hx.Case) {
		hx.Reset(hx.Epoch)
		a := circuitbreakerAdapter()
		r := genericUnsupportedCb()
		_, err := a.loadAll([]any{r})
		got := a.getRes("a")
		c.Op("LoadRules([rule with Strategy 7]) -> err=%v, GetRulesOfResource reports %d rule(s)", err, len(got))
		_ = a.clearAll()
		hx.Witness(t, "C13", "P24", "circuitbreaker.GetRules/GetRulesOfResource report a valid rule whose Strategy has no generator, although no breaker enforces it (reported != enforced)", len(got) == 1)
		c.NonTrivial()
	})
}

// P10/P11 regressions (repaired).
func TestP_RegressP10P11(t *testing.T) {
	hx.Plain(t, func(c *hx.Case) {
		for _, mk := range []func() *adapter{flowAdapter, isolationAdapter, hotspotAdapter, circuitbreakerAdapter, outlierAdapter} {
			a := mk()
			hx.Reset(hx.Epoch)
			_ = a.clearAll()
			func() {
				defer func() {
					if r := recover(); r != nil {
						t.Fatalf("%s: LoadRules([nil]) panicked: %v", a.name, r)
					}
				}()
				var nilRule any
				switch a.name {
				case "flow":
					nilRule = nilFlow()
				case "isolation":
					nilRule = nilIso()
				case "hotspot":
					nilRule = nilHot()
				case "circuitbreaker":
					nilRule = nilCb()
				case "outlier":
					nilRule = nilOut()
				}
				if _, err := a.loadAll([]any{nilRule}); err != nil {
					t.Fatalf("%s: LoadRules([nil]) returned %v", a.name, err)
				}
			}()
			_ = a.clearAll()
		}
		// P11: an invalid rule loaded through the per-resource path must not get a breaker
		hx.Reset(hx.Epoch)
		a := circuitbreakerAdapter()
		bad := genericInvalidCb()
		_, _ = a.loadRes("a", []any{bad})
		tr := genericProbe(hx.Epoch, []preq{{res: "a", err: true, batch: 1}, {res: "a", err: true, batch: 1}, {res: "a", batch: 1}}, nil, false)
		c.Op("cb.LoadRulesOfResource(a,[invalid rule]) then 2 failing requests and one more: %s", tr)
		if strings.Contains(tr, "B") {
			t.Fatalf("an invalid circuit-breaking rule loaded per resource still trips a breaker: %s", tr)
		}
		_ = a.clearAll()
		c.NonTrivial()
	})
}
