package c13

import (
	"errors"
	"fmt"
	"strings"

	sentinel "github.com/alibaba/sentinel-golang/api"
	"github.com/alibaba/sentinel-golang/core/base"
	cb "github.com/alibaba/sentinel-golang/core/circuitbreaker"
	"github.com/alibaba/sentinel-golang/core/flow"
	"github.com/alibaba/sentinel-golang/core/hotspot"
	"github.com/alibaba/sentinel-golang/core/isolation"
	"github.com/alibaba/sentinel-golang/core/outlier"
	"github.com/alibaba/sentinel-golang/core/system"
	"github.com/alibaba/sentinel-golang/core/system_metric"
	"pgregory.net/rapid"

	"verif/harness/hx"
	"verif/harness/model"
)

// adapter gives the generic state machine a uniform view of one rule module. Rules travel as `any`
// holding the module's *Rule (possibly a typed nil pointer).
type adapter struct {
	name      string
	resources []string
	perRes    bool // the module has per-resource load/clear
	single    bool // at most one rule per resource (outlier)
	gen       func(t *rapid.T, res string, allowNil bool) any
	isNil     func(any) bool
	valid     func(any) bool // the module's exported validity check, and supported by the module
	resOf     func(any) string
	key       func(any) string // canonical text modulo the ID label and strategy-unused fields
	clone     func(any) any
	loadAll   func([]any) (bool, error)
	loadRes   func(string, []any) (bool, error)
	clearAll  func() error
	clearRes  func(string) error
	getAll    func() []any
	getRes    func(string) []any
	probe     func(t0 uint64, plan []preq) string
	// family (optional) rewrites the rule's strategy/behaviour combination in place, keeping every other field: the
	// successor of a rule in a later load is then of another family but statistic-compatible with it
	family func(t *rapid.T, r any)
}

// curCase is the evidence case of the running property (set by runModule).
var curCase *hx.Case

type preq struct {
	dt    uint64
	res   string
	arg   int
	batch uint32
	err   bool
	rt    uint64
	in    bool
}

func drawProbe(t *rapid.T, resources []string) []preq {
	n := rapid.IntRange(5, 30).Draw(t, "probeLen")
	var ps []preq
	for i := 0; i < n; i++ {
		ps = append(ps, preq{dt: uint64(rapid.SampledFrom([]int{0, 0, 1, 50, 200, 600, 1100}).Draw(t, "pdt")), res: rapid.SampledFrom(resources).Draw(t, "pres"),
			arg: rapid.IntRange(0, 1).Draw(t, "parg"), batch: uint32(rapid.IntRange(1, 2).Draw(t, "pbatch")), err: rapid.Bool().Draw(t, "perr"),
			rt: uint64(rapid.SampledFrom([]int{0, 1, 30}).Draw(t, "prt")), in: rapid.Bool().Draw(t, "pin")})
	}
	return ps
}

// genericProbe drives api.Entry with the plan and renders every decision.
func genericProbe(t0 uint64, plan []preq, chain *base.SlotChain, callee bool) string {
	var sb strings.Builder
	now := t0
	for _, p := range plan {
		now += p.dt
		hx.C.SetMs(now)
		hx.C.TakeSlept()
		opts := []sentinel.EntryOption{sentinel.WithArgs(p.arg, p.arg+1), sentinel.WithBatchCount(p.batch)}
		if p.in {
			opts = append(opts, sentinel.WithTrafficType(base.Inbound))
		}
		if chain != nil {
			opts = append(opts, sentinel.WithSlotChain(chain))
		}
		res := p.res
		if res == "" {
			res = "sysres"
		}
		e, b := sentinel.Entry(res, opts...)
		var w int64
		for _, d := range hx.C.TakeSlept() {
			w += int64(d)
		}
		if b != nil {
			fmt.Fprintf(&sb, "B%d[%s] ", b.BlockType(), ruleText(b.TriggeredRule()))
			now += p.rt
			hx.C.SetMs(now)
			continue
		}
		fmt.Fprintf(&sb, "P%d", w)
		if callee {
			fmt.Fprintf(&sb, "f%vh%v", e.Context().FilterNodes(), e.Context().HalfOpenNodes())
			sentinel.TraceCallee(e, fmt.Sprintf("n%d", p.arg))
		}
		sb.WriteString(" ")
		now += p.rt
		hx.C.SetMs(now)
		if p.err {
			e.Exit(base.WithError(errors.New("biz")))
		} else {
			e.Exit()
		}
	}
	return sb.String()
}

func ruleText(r base.SentinelRule) string {
	switch x := r.(type) {
	case *flow.Rule:
		return flowKey(x)
	case *isolation.Rule:
		return isoKey(x)
	case *hotspot.Rule:
		return hotKey(x)
	case *cb.Rule:
		return cbKey(x)
	case *system.Rule:
		return sysKey(x)
	case nil:
		return "nil"
	}
	return fmt.Sprintf("%T", r)
}

func toAny[T any](rs []T) []any {
	out := make([]any, len(rs))
	for i := range rs {
		out[i] = rs[i]
	}
	return out
}

// ---- flow ------------------------------------------------------------------------------------------

func flowKey(r *flow.Rule) string {
	x := *r
	x.ID = ""
	return fmt.Sprintf("%+v", x)
}

func flowAdapter() *adapter {
	un := func(rs []any) []*flow.Rule {
		out := make([]*flow.Rule, len(rs))
		for i, r := range rs {
			out[i] = r.(*flow.Rule)
		}
		return out
	}
	vals := func(rs []flow.Rule) []any {
		out := make([]any, len(rs))
		for i := range rs {
			x := rs[i]
			out[i] = &x
		}
		return out
	}
	return &adapter{name: "flow", resources: []string{"a", "b", "c"}, perRes: true,
		gen: func(t *rapid.T, res string, allowNil bool) any {
			if allowNil && rapid.IntRange(0, 11).Draw(t, "nil") == 0 {
				return (*flow.Rule)(nil)
			}
			r := &flow.Rule{ID: fmt.Sprint(rapid.IntRange(0, 9).Draw(t, "id")), Resource: res,
				Threshold:              rapid.SampledFrom([]float64{0, 1, 2, 5, 2000000000, 2000000010, 100000000, 100000001}).Draw(t, "thr"), // (huge, close thresholds are different thresholds)
				ControlBehavior:        flow.ControlBehavior(rapid.SampledFrom([]int{0, 0, 0, 1}).Draw(t, "cb")),
				TokenCalculateStrategy: flow.TokenCalculateStrategy(rapid.SampledFrom([]int{0, 0, 0, 1, 2}).Draw(t, "tcs")),
				MaxQueueingTimeMs:      uint32(rapid.SampledFrom([]int{0, 100}).Draw(t, "q")),
				StatIntervalInMs:       uint32(rapid.SampledFrom([]int{0, 0, 1000, 3000, 700, 2000, 500, 5000}).Draw(t, "iv")),
				WarmUpPeriodSec:        uint32(rapid.IntRange(1, 3).Draw(t, "wp")), WarmUpColdFactor: uint32(rapid.SampledFrom([]int{0, 3, 3, 2}).Draw(t, "wc"))}
			if rapid.IntRange(0, 4).Draw(t, "assoc") == 0 {
				r.RelationStrategy, r.RefResource = flow.AssociatedResource, "b"
			}
			if r.TokenCalculateStrategy == flow.MemoryAdaptive { // a valid memory-adaptive rule (either control behaviour)
				r.HighMemUsageThreshold = int64(rapid.IntRange(1, 2).Draw(t, "highThr"))
				r.LowMemUsageThreshold = r.HighMemUsageThreshold + int64(rapid.IntRange(1, 3).Draw(t, "lowDelta"))
				r.MemLowWaterMarkBytes, r.MemHighWaterMarkBytes = 1<<20, 1<<21
			}
			if r.WarmUpColdFactor == 0 && hx.Known("P12") {
				r.WarmUpColdFactor = 3
			}
			switch rapid.IntRange(0, 14).Draw(t, "invalid") { // field-wise invalid / unsupported variants
			case 0:
				r.Threshold = -1
			case 1:
				r.RelationStrategy = 5
			case 2:
				r.ControlBehavior = -1
			case 3:
				r.TokenCalculateStrategy = -2
			case 4:
				r.Resource = ""
			case 5:
				r.RelationStrategy, r.RefResource = flow.AssociatedResource, ""
			case 6:
				r.TokenCalculateStrategy, r.WarmUpPeriodSec = flow.WarmUp, 0
			case 7:
				r.TokenCalculateStrategy, r.WarmUpColdFactor = flow.WarmUp, 1
			case 8:
				r.ControlBehavior = 7 // valid per the check, not supported by the module
			case 9:
				r.TokenCalculateStrategy = 9 // idem
			case 10:
				r.TokenCalculateStrategy = flow.MemoryAdaptive // invalid: marks and thresholds unset
			}
			return r
		},
		family: func(t *rapid.T, r any) {
			x := r.(*flow.Rule)
			x.TokenCalculateStrategy = flow.TokenCalculateStrategy(rapid.IntRange(0, 2).Draw(t, "familyStrategy"))
			x.ControlBehavior = flow.ControlBehavior(rapid.IntRange(0, 1).Draw(t, "familyBehaviour"))
			if x.TokenCalculateStrategy == flow.MemoryAdaptive && x.LowMemUsageThreshold == 0 {
				x.HighMemUsageThreshold, x.LowMemUsageThreshold, x.MemLowWaterMarkBytes, x.MemHighWaterMarkBytes = 1, 3, 1<<20, 1<<21
			}
		},
		isNil: func(r any) bool { return r.(*flow.Rule) == nil },
		valid: func(r any) bool {
			x := r.(*flow.Rule)
			if !model.ValidFlow(x) {
				return false
			}
			return x.TokenCalculateStrategy >= flow.Direct && x.TokenCalculateStrategy <= flow.MemoryAdaptive && x.ControlBehavior >= flow.Reject && x.ControlBehavior <= flow.Throttling
		},
		resOf: func(r any) string { return r.(*flow.Rule).Resource },
		key:   func(r any) string { return flowKey(r.(*flow.Rule)) },
		clone: func(r any) any {
			x := r.(*flow.Rule)
			if x == nil {
				return x
			}
			y := *x
			return &y
		},
		loadAll:  func(rs []any) (bool, error) { return flow.LoadRules(un(rs)) },
		loadRes:  func(res string, rs []any) (bool, error) { return flow.LoadRulesOfResource(res, un(rs)) },
		clearAll: flow.ClearRules, clearRes: flow.ClearRulesOfResource,
		getAll: func() []any { return vals(flow.GetRules()) },
		getRes: func(res string) []any { return vals(flow.GetRulesOfResource(res)) },
		probe:  func(t0 uint64, plan []preq) string { return genericProbe(t0, plan, nil, false) },
	}
}

// ---- isolation ---------------------------------------------------------------------------------------

func isoKey(r *isolation.Rule) string {
	x := *r
	x.ID = ""
	return fmt.Sprintf("%+v", x)
}

func isolationAdapter() *adapter {
	un := func(rs []any) []*isolation.Rule {
		out := make([]*isolation.Rule, len(rs))
		for i, r := range rs {
			out[i] = r.(*isolation.Rule)
		}
		return out
	}
	vals := func(rs []isolation.Rule) []any {
		out := make([]any, len(rs))
		for i := range rs {
			x := rs[i]
			out[i] = &x
		}
		return out
	}
	return &adapter{name: "isolation", resources: []string{"a", "b", "c"}, perRes: true,
		gen: func(t *rapid.T, res string, allowNil bool) any {
			if allowNil && rapid.IntRange(0, 11).Draw(t, "nil") == 0 {
				return (*isolation.Rule)(nil)
			}
			r := &isolation.Rule{ID: fmt.Sprint(rapid.IntRange(0, 9).Draw(t, "id")), Resource: res, Threshold: uint32(rapid.IntRange(1, 3).Draw(t, "thr"))}
			switch rapid.IntRange(0, 8).Draw(t, "invalid") {
			case 0:
				r.Threshold = 0
			case 1:
				r.MetricType = 3
			case 2:
				r.Resource = ""
			}
			return r
		},
		isNil: func(r any) bool { return r.(*isolation.Rule) == nil },
		valid: func(r any) bool { return model.ValidIsolation(r.(*isolation.Rule)) },
		resOf: func(r any) string { return r.(*isolation.Rule).Resource },
		key:   func(r any) string { return isoKey(r.(*isolation.Rule)) },
		clone: func(r any) any {
			x := r.(*isolation.Rule)
			if x == nil {
				return x
			}
			y := *x
			return &y
		},
		loadAll:  func(rs []any) (bool, error) { return isolation.LoadRules(un(rs)) },
		loadRes:  func(res string, rs []any) (bool, error) { return isolation.LoadRulesOfResource(res, un(rs)) },
		clearAll: isolation.ClearRules, clearRes: isolation.ClearRulesOfResource,
		getAll: func() []any { return vals(isolation.GetRules()) },
		getRes: func(res string) []any { return vals(isolation.GetRulesOfResource(res)) },
		probe: func(t0 uint64, plan []preq) string { // keep two entries of each resource open to exercise the concurrency cap
			var sb strings.Builder
			hx.C.SetMs(t0)
			var held []*base.SentinelEntry
			for _, p := range plan {
				e, b := sentinel.Entry(p.res, sentinel.WithBatchCount(p.batch))
				if b != nil {
					fmt.Fprintf(&sb, "B%d[%s] ", b.BlockType(), ruleText(b.TriggeredRule()))
					continue
				}
				sb.WriteString("P ")
				if p.err && len(held) > 0 {
					held[0].Exit()
					held = held[1:]
				}
				held = append(held, e)
			}
			for _, e := range held {
				e.Exit()
			}
			return sb.String()
		},
	}
}

// ---- hotspot -----------------------------------------------------------------------------------------

func hotKey(r *hotspot.Rule) string {
	x := *r
	x.ID = ""
	if x.ControlBehavior == hotspot.Reject {
		x.MaxQueueingTimeMs = 0
	} else if x.ControlBehavior == hotspot.Throttling {
		x.BurstCount = 0
	}
	items := fmt.Sprint(x.SpecificItems)
	if len(x.SpecificItems) == 0 {
		items = "map[]"
	}
	x.SpecificItems = nil
	return fmt.Sprintf("%+v %s", x, items)
}

func hotspotAdapter() *adapter {
	un := func(rs []any) []*hotspot.Rule {
		out := make([]*hotspot.Rule, len(rs))
		for i, r := range rs {
			out[i] = r.(*hotspot.Rule)
		}
		return out
	}
	vals := func(rs []hotspot.Rule) []any {
		out := make([]any, len(rs))
		for i := range rs {
			x := rs[i]
			out[i] = &x
		}
		return out
	}
	return &adapter{name: "hotspot", resources: []string{"a", "b", "c"}, perRes: true,
		gen: func(t *rapid.T, res string, allowNil bool) any {
			if allowNil && rapid.IntRange(0, 11).Draw(t, "nil") == 0 {
				return (*hotspot.Rule)(nil)
			}
			r := &hotspot.Rule{ID: fmt.Sprint(rapid.IntRange(0, 9).Draw(t, "id")), Resource: res, MetricType: hotspot.MetricType(rapid.SampledFrom([]int{0, 1, 1}).Draw(t, "mt")),
				ControlBehavior: hotspot.ControlBehavior(rapid.SampledFrom([]int{0, 0, 1}).Draw(t, "cb")), ParamIndex: rapid.SampledFrom([]int{0, 0, 1, -1}).Draw(t, "idx"),
				Threshold: int64(rapid.IntRange(0, 3).Draw(t, "thr")), DurationInSec: int64(rapid.IntRange(1, 2).Draw(t, "dur")), BurstCount: int64(rapid.IntRange(0, 1).Draw(t, "burst")),
				MaxQueueingTimeMs: int64(rapid.SampledFrom([]int{0, 50}).Draw(t, "q"))}
			if rapid.Bool().Draw(t, "items") || hx.Known("P12") {
				r.SpecificItems = map[interface{}]int64{}
				if rapid.Bool().Draw(t, "item0") {
					r.SpecificItems[0] = int64(rapid.IntRange(0, 2).Draw(t, "itemT"))
				}
			}
			switch rapid.IntRange(0, 12).Draw(t, "invalid") {
			case 0:
				r.Threshold = -1
			case 1:
				r.BurstCount, r.ControlBehavior = -1, hotspot.Reject
			case 2:
				r.ParamIndex, r.ParamKey = 1, "k"
			case 3:
				r.MetricType = -1
			case 4:
				r.ControlBehavior = -1
			case 5:
				r.MetricType, r.DurationInSec = hotspot.QPS, 0
			case 6:
				r.MaxQueueingTimeMs, r.ControlBehavior = -5, hotspot.Throttling
			case 7:
				r.Resource = ""
			case 8:
				r.ControlBehavior = 4 // valid per the check, unsupported
			case 9:
				r.MetricType = 6 // idem
			}
			return r
		},
		isNil: func(r any) bool { return r.(*hotspot.Rule) == nil },
		valid: func(r any) bool {
			x := r.(*hotspot.Rule)
			if !model.ValidHotspot(x) {
				return false
			}
			return (x.ControlBehavior == hotspot.Reject || x.ControlBehavior == hotspot.Throttling) && (x.MetricType == hotspot.QPS || x.MetricType == hotspot.Concurrency)
		},
		resOf: func(r any) string { return r.(*hotspot.Rule).Resource },
		key:   func(r any) string { return hotKey(r.(*hotspot.Rule)) },
		clone: func(r any) any {
			x := r.(*hotspot.Rule)
			if x == nil {
				return x
			}
			y := *x
			if x.SpecificItems != nil {
				y.SpecificItems = map[interface{}]int64{}
				for k, v := range x.SpecificItems {
					y.SpecificItems[k] = v
				}
			}
			return &y
		},
		loadAll:  func(rs []any) (bool, error) { return hotspot.LoadRules(un(rs)) },
		loadRes:  func(res string, rs []any) (bool, error) { return hotspot.LoadRulesOfResource(res, un(rs)) },
		clearAll: hotspot.ClearRules, clearRes: hotspot.ClearRulesOfResource,
		getAll: func() []any { return vals(hotspot.GetRules()) },
		getRes: func(res string) []any { return vals(hotspot.GetRulesOfResource(res)) },
		probe:  func(t0 uint64, plan []preq) string { return genericProbe(t0, plan, nil, false) },
	}
}

// ---- circuit breaker -----------------------------------------------------------------------------------

func cbKey(r *cb.Rule) string {
	x := *r
	x.Id = ""
	if x.Strategy != cb.SlowRequestRatio {
		x.MaxAllowedRtMs = 0
	}
	return fmt.Sprintf("%+v", x)
}

func genCb(t *rapid.T, res string) *cb.Rule {
	r := &cb.Rule{Id: fmt.Sprint(rapid.IntRange(0, 9).Draw(t, "id")), Resource: res, Strategy: cb.Strategy(rapid.IntRange(0, 2).Draw(t, "strategy")),
		RetryTimeoutMs: uint32(rapid.SampledFrom([]int{10, 500}).Draw(t, "retry")), MinRequestAmount: uint64(rapid.IntRange(0, 2).Draw(t, "min")),
		StatIntervalMs: uint32(rapid.SampledFrom([]int{1000, 5000}).Draw(t, "interval")), StatSlidingWindowBucketCount: uint32(rapid.SampledFrom([]int{0, 1, 5, 7}).Draw(t, "buckets")),
		MaxAllowedRtMs: uint64(rapid.SampledFrom([]int{0, 10}).Draw(t, "maxRt")), ProbeNum: uint64(rapid.IntRange(0, 1).Draw(t, "probe"))}
	if r.Strategy == cb.ErrorCount {
		r.Threshold = float64(rapid.IntRange(0, 2).Draw(t, "count"))
		if rapid.IntRange(0, 5).Draw(t, "hugeCount") == 0 {
			r.Threshold = rapid.SampledFrom([]float64{2000000000, 2000000010, 100000000, 100000001}).Draw(t, "huge")
		}
	} else {
		r.Threshold = rapid.SampledFrom([]float64{0, 0.5, 1}).Draw(t, "ratio")
	}
	switch rapid.IntRange(0, 12).Draw(t, "invalid") {
	case 0:
		r.StatIntervalMs = 0
	case 1:
		r.RetryTimeoutMs = 0
	case 2:
		r.Threshold = -0.5
	case 3:
		r.Strategy, r.Threshold = cb.ErrorRatio, 1.5
	case 4:
		r.Strategy, r.Threshold = cb.SlowRequestRatio, 2
	case 5:
		r.Resource = ""
	case 6:
		r.Strategy = 7 // valid per the check, unsupported
	}
	return r
}

// P24 (known): circuitbreaker getters report valid rules of a strategy the module has no generator for.
func dropUnsupportedCb(c interface{ Excluded(string) }, r *cb.Rule) *cb.Rule {
	if r != nil && r.Strategy > cb.ErrorCount && hx.Known("P24") {
		r.Strategy = cb.ErrorCount
		r.Threshold = 1
		c.Excluded("P24")
	}
	return r
}

func circuitbreakerAdapter() *adapter {
	un := func(rs []any) []*cb.Rule {
		out := make([]*cb.Rule, len(rs))
		for i, r := range rs {
			out[i] = r.(*cb.Rule)
		}
		return out
	}
	vals := func(rs []cb.Rule) []any {
		out := make([]any, len(rs))
		for i := range rs {
			x := rs[i]
			out[i] = &x
		}
		return out
	}
	return &adapter{name: "circuitbreaker", resources: []string{"a", "b", "c"}, perRes: true,
		gen: func(t *rapid.T, res string, allowNil bool) any {
			if allowNil && rapid.IntRange(0, 11).Draw(t, "nil") == 0 {
				return (*cb.Rule)(nil)
			}
			return dropUnsupportedCb(curCase, genCb(t, res))
		},
		isNil: func(r any) bool { return r.(*cb.Rule) == nil },
		valid: func(r any) bool {
			x := r.(*cb.Rule)
			return model.ValidCb(x) && x.Strategy >= cb.SlowRequestRatio && x.Strategy <= cb.ErrorCount
		},
		resOf: func(r any) string { return r.(*cb.Rule).Resource },
		key:   func(r any) string { return cbKey(r.(*cb.Rule)) },
		clone: func(r any) any {
			x := r.(*cb.Rule)
			if x == nil {
				return x
			}
			y := *x
			return &y
		},
		loadAll:  func(rs []any) (bool, error) { return cb.LoadRules(un(rs)) },
		loadRes:  func(res string, rs []any) (bool, error) { return cb.LoadRulesOfResource(res, un(rs)) },
		clearAll: cb.ClearRules, clearRes: cb.ClearRulesOfResource,
		getAll: func() []any { return vals(cb.GetRules()) },
		getRes: func(res string) []any { return vals(cb.GetRulesOfResource(res)) },
		probe:  func(t0 uint64, plan []preq) string { return genericProbe(t0, plan, nil, false) },
	}
}

// ---- system --------------------------------------------------------------------------------------------

func sysKey(r *system.Rule) string {
	x := *r
	x.ID = ""
	return fmt.Sprintf("%+v", x)
}

func systemAdapter() *adapter {
	un := func(rs []any) []*system.Rule {
		out := make([]*system.Rule, len(rs))
		for i, r := range rs {
			out[i] = r.(*system.Rule)
		}
		return out
	}
	vals := func(rs []system.Rule) []any {
		out := make([]any, len(rs))
		for i := range rs {
			x := rs[i]
			out[i] = &x
		}
		return out
	}
	return &adapter{name: "system", resources: []string{""}, perRes: false,
		gen: func(t *rapid.T, res string, allowNil bool) any {
			if allowNil && rapid.IntRange(0, 11).Draw(t, "nil") == 0 {
				return (*system.Rule)(nil)
			}
			r := &system.Rule{ID: fmt.Sprint(rapid.IntRange(0, 9).Draw(t, "id")), MetricType: system.MetricType(rapid.IntRange(0, 4).Draw(t, "metric")),
				TriggerCount: rapid.SampledFrom([]float64{0, 0.5, 1, 2, 3}).Draw(t, "trig"), Strategy: system.AdaptiveStrategy(rapid.SampledFrom([]int{-1, 1}).Draw(t, "strategy"))}
			switch rapid.IntRange(0, 8).Draw(t, "invalid") {
			case 0:
				r.TriggerCount = -1
			case 1:
				r.MetricType = system.MetricTypeSize
			case 2:
				r.MetricType, r.TriggerCount = system.CpuUsage, 1.5
			}
			return r
		},
		isNil: func(r any) bool { return r.(*system.Rule) == nil },
		valid: func(r any) bool { return model.ValidSystem(r.(*system.Rule)) },
		resOf: func(r any) string { return "" },
		key:   func(r any) string { return sysKey(r.(*system.Rule)) },
		clone: func(r any) any {
			x := r.(*system.Rule)
			if x == nil {
				return x
			}
			y := *x
			return &y
		},
		loadAll:  func(rs []any) (bool, error) { return system.LoadRules(un(rs)) },
		clearAll: system.ClearRules,
		getAll:   func() []any { return vals(system.GetRules()) },
		getRes:   func(res string) []any { return vals(system.GetRules()) },
		probe: func(t0 uint64, plan []preq) string {
			system_metric.SetSystemLoad(1.5)
			system_metric.SetSystemCpuUsage(0.7)
			var sb strings.Builder
			now := t0
			var held []*base.SentinelEntry
			for _, p := range plan {
				now += p.dt
				hx.C.SetMs(now)
				opts := []sentinel.EntryOption{sentinel.WithBatchCount(p.batch)}
				if p.in || p.arg == 0 {
					opts = append(opts, sentinel.WithTrafficType(base.Inbound))
				}
				e, b := sentinel.Entry("sysres", opts...)
				if b != nil {
					// which violated rule triggers depends on map order: only the block type is compared
					fmt.Fprintf(&sb, "B%d ", b.BlockType())
					continue
				}
				sb.WriteString("P ")
				held = append(held, e)
				if p.err && len(held) > 1 {
					now += p.rt
					hx.C.SetMs(now)
					held[0].Exit()
					held = held[1:]
				}
			}
			for _, e := range held {
				e.Exit()
			}
			return sb.String()
		},
	}
}

// ---- outlier ---------------------------------------------------------------------------------------------

var outlierChain = func() *base.SlotChain {
	sc := sentinel.BuildDefaultSlotChain()
	sc.AddRuleCheckSlot(outlier.DefaultSlot)
	sc.AddStatSlot(outlier.DefaultMetricStatSlot)
	return sc
}()

func outKey(r *outlier.Rule) string {
	x := *r
	inner := "nil"
	if x.Rule != nil {
		inner = cbKey(x.Rule)
	}
	x.Rule = nil
	x.RecoveryCheckFunc = nil
	return fmt.Sprintf("%+v|%s", x, inner)
}

func outlierAdapter() *adapter {
	un := func(rs []any) []*outlier.Rule {
		out := make([]*outlier.Rule, len(rs))
		for i, r := range rs {
			out[i] = r.(*outlier.Rule)
		}
		return out
	}
	vals := func(rs []outlier.Rule) []any {
		out := make([]any, len(rs))
		for i := range rs {
			x := rs[i]
			out[i] = &x
		}
		return out
	}
	return &adapter{name: "outlier", resources: []string{"oa", "ob", "oc"}, perRes: true, single: true,
		gen: func(t *rapid.T, res string, allowNil bool) any {
			if allowNil && rapid.IntRange(0, 11).Draw(t, "nil") == 0 {
				return (*outlier.Rule)(nil)
			}
			inner := genCb(t, res)
			inner.RetryTimeoutMs = 500
			r := &outlier.Rule{Rule: inner, EnableActiveRecovery: false, MaxEjectionPercent: rapid.SampledFrom([]float64{0, 0.5, 1}).Draw(t, "pct"),
				RecoveryIntervalMs: 4000, MaxRecoveryAttempts: 1}
			switch rapid.IntRange(0, 8).Draw(t, "invalidOuter") {
			case 0:
				r.MaxEjectionPercent = 1.5
			case 1:
				r.MaxEjectionPercent = -0.1
			case 2:
				if allowNil {
					r.Rule = nil // nil embedded breaking rule
				}
			}
			return r
		},
		isNil: func(r any) bool { return r.(*outlier.Rule) == nil || r.(*outlier.Rule).Rule == nil },
		valid: func(r any) bool {
			x := r.(*outlier.Rule)
			return model.ValidOutlier(x) && model.ValidCb(x.Rule)
		},
		resOf: func(r any) string { return r.(*outlier.Rule).Resource },
		key:   func(r any) string { return outKey(r.(*outlier.Rule)) },
		clone: func(r any) any {
			x := r.(*outlier.Rule)
			if x == nil {
				return x
			}
			y := *x
			if x.Rule != nil {
				in := *x.Rule
				y.Rule = &in
			}
			return &y
		},
		loadAll: func(rs []any) (bool, error) { return outlier.LoadRules(un(rs)) },
		loadRes: func(res string, rs []any) (bool, error) {
			if len(rs) == 0 {
				return outlier.LoadRuleOfResource(res, nil)
			}
			return outlier.LoadRuleOfResource(res, rs[len(rs)-1].(*outlier.Rule))
		},
		clearAll: outlier.ClearRules, clearRes: outlier.ClearRuleOfResource,
		getAll: func() []any { return vals(outlier.GetRules()) },
		getRes: func(res string) []any {
			var out []any
			for _, r := range outlier.GetRules() {
				if r.Rule != nil && r.Resource == res {
					x := r
					out = append(out, &x)
				}
			}
			return out
		},
		// no failing completions: nothing becomes an outlier, so no retry/recycle task is ever queued (hazard P20)
		probe: nil,
	}
}

func nilFlow() any { return (*flow.Rule)(nil) }
func nilIso() any  { return (*isolation.Rule)(nil) }
func nilHot() any  { return (*hotspot.Rule)(nil) }
func nilCb() any   { return (*cb.Rule)(nil) }
func nilOut() any  { return (*outlier.Rule)(nil) }

func genericUnsupportedCb() any {
	return &cb.Rule{Resource: "a", Strategy: 7, RetryTimeoutMs: 10, StatIntervalMs: 1000, Threshold: 1}
}

// invalid (RetryTimeoutMs 0) but otherwise ready to trip after one error
func genericInvalidCb() any {
	return &cb.Rule{Resource: "a", Strategy: cb.ErrorCount, RetryTimeoutMs: 0, MinRequestAmount: 1, StatIntervalMs: 1000, Threshold: 1}
}
