// C15: public API is race free and rule switches are atomic under live traffic.
// Built with -race (meta.json): any data race report fails the process.
package c15

import (
	"errors"
	"fmt"
	"os"
	"runtime"
	"sort"
	"strings"
	"sync"
	"sync/atomic"
	"testing"
	"time"

	sentinel "github.com/alibaba/sentinel-golang/api"
	"github.com/alibaba/sentinel-golang/core/base"
	cb "github.com/alibaba/sentinel-golang/core/circuitbreaker"
	"github.com/alibaba/sentinel-golang/core/config"
	"github.com/alibaba/sentinel-golang/core/flow"
	"github.com/alibaba/sentinel-golang/core/hotspot"
	"github.com/alibaba/sentinel-golang/core/isolation"
	"github.com/alibaba/sentinel-golang/core/outlier"
	"github.com/alibaba/sentinel-golang/core/stat"
	"github.com/alibaba/sentinel-golang/core/system"
	"github.com/alibaba/sentinel-golang/util"
	"pgregory.net/rapid"

	"verif/harness/hx"
)

func TestMain(m *testing.M) {
	runtime.GOMAXPROCS(16)
	hx.Main(m, "C15")
}

// switch modules: resource "sw" alternates between two block-everything lists, "kb" keeps one constant block-all rule.
type switcher struct {
	name          string
	opts          func() []sentinel.EntryOption
	btype         base.BlockType
	loadAll       func(swID string, others int) error // whole set: sw rule with the given id + kb rule + rules on other resources
	loadSwVariant func(swID string, variant int) error
	ruleID        func(r base.SentinelRule) string
	global        bool // the module has one rule list for all resources (system): "kb" is gated by the same two lists
}

func switchers() []switcher {
	return []switcher{
		{name: "flow", btype: base.BlockTypeFlow,
			opts: func() []sentinel.EntryOption { return nil },
			loadAll: func(id string, others int) error {
				rs := append(flowSw(id, others), &flow.Rule{ID: "kb", Resource: "kb", Threshold: 0},
					// a rule that meters an associated resource, rebuilt by every load (its threshold changes)
					&flow.Rule{ID: "assoc", Resource: "t0", RelationStrategy: flow.AssociatedResource, RefResource: "t1", Threshold: 1e9 + float64(others)})
				for i := 0; i < others; i++ {
					rs = append(rs, &flow.Rule{ID: fmt.Sprint("o", i), Resource: fmt.Sprint("t", i%3), Threshold: float64(1 + i)})
				}
				_, err := flow.LoadRules(rs)
				return err
			},
			loadSwVariant: func(id string, v int) error {
				_, err := flow.LoadRulesOfResource("sw", flowSw(id, v))
				return err
			},
			ruleID: func(r base.SentinelRule) string {
				if x, ok := r.(*flow.Rule); ok {
					return x.ID
				}
				return "?"
			}},
		{name: "isolation", btype: base.BlockTypeIsolation,
			opts: func() []sentinel.EntryOption { return []sentinel.EntryOption{sentinel.WithBatchCount(2)} }, // 0+2 > 1: always rejected
			loadAll: func(id string, others int) error {
				rs := append(isoSw(id, others), &isolation.Rule{ID: "kb", Resource: "kb", Threshold: 1})
				for i := 0; i < others; i++ {
					rs = append(rs, &isolation.Rule{ID: fmt.Sprint("o", i), Resource: fmt.Sprint("t", i%3), Threshold: uint32(2 + i)})
				}
				_, err := isolation.LoadRules(rs)
				return err
			},
			loadSwVariant: func(id string, v int) error {
				_, err := isolation.LoadRulesOfResource("sw", isoSw(id, v))
				return err
			},
			ruleID: func(r base.SentinelRule) string {
				if x, ok := r.(*isolation.Rule); ok {
					return x.ID
				}
				return "?"
			}},
		{name: "hotspot", btype: base.BlockTypeHotSpotParamFlow,
			opts: func() []sentinel.EntryOption { return []sentinel.EntryOption{sentinel.WithArgs("v")} },
			loadAll: func(id string, others int) error {
				rs := append(hotSw(id, others), hotBlock("kb", "kb"))
				for i := 0; i < others; i++ {
					rs = append(rs, &hotspot.Rule{ID: fmt.Sprint("o", i), Resource: fmt.Sprint("t", i%3), MetricType: hotspot.Concurrency, ParamIndex: 0, Threshold: int64(1 + i), SpecificItems: map[interface{}]int64{}})
				}
				_, err := hotspot.LoadRules(rs)
				return err
			},
			loadSwVariant: func(id string, v int) error {
				_, err := hotspot.LoadRulesOfResource("sw", hotSw(id, v))
				return err
			},
			ruleID: func(r base.SentinelRule) string {
				if x, ok := r.(*hotspot.Rule); ok {
					return x.ID
				}
				return "?"
			}},
		// system: list 1 gates by inbound QPS (trigger 0: always reached), list 2 by inbound concurrency or average RT (trigger
		// 0); inert rules of the remaining metric types come and go. A request that reads part of one list and part of the
		// other sees no violated rule.
		{name: "system", btype: base.BlockTypeSystemFlow, global: true,
			opts: func() []sentinel.EntryOption { return []sentinel.EntryOption{sentinel.WithTrafficType(base.Inbound)} },
			loadAll: func(id string, others int) error {
				_, err := system.LoadRules(sysSw(id, others))
				return err
			},
			loadSwVariant: func(id string, v int) error {
				_, err := system.LoadRules(sysSw(id, v))
				return err
			},
			ruleID: func(r base.SentinelRule) string {
				if x, ok := r.(*system.Rule); ok {
					return x.ID
				}
				return "?"
			}},
	}
}

func sysSw(id string, variant int) []*system.Rule {
	var rs []*system.Rule
	inert := []*system.Rule{{ID: "i0", MetricType: system.Load, TriggerCount: 1e9}, {ID: "i1", MetricType: system.CpuUsage, TriggerCount: 1}, {ID: "i2", MetricType: system.AvgRT, TriggerCount: 1e9}}
	for i := 0; i < variant%3; i++ {
		rs = append(rs, inert[(variant+i)%3])
	}
	block := &system.Rule{ID: id, MetricType: system.InboundQPS, TriggerCount: 0}
	if id == "2" {
		block.MetricType = []system.MetricType{system.Concurrency, system.AvgRT}[variant%2]
		if block.MetricType == system.AvgRT {
			var kept []*system.Rule
			for _, r := range rs {
				if r.MetricType != system.AvgRT {
					kept = append(kept, r)
				}
			}
			rs = kept
		}
	}
	return append(rs, block)
}

var outlierN, freshN int64

// The switched resource always carries exactly one block-everything rule (id "1" or "2") among inert
// rules whose number, position and statistic parameters vary from load to load, so that rule re-use,
// statistic re-use and in-place list edits of the managers are exercised while requests walk the list.
func flowSw(id string, variant int) []*flow.Rule {
	block := &flow.Rule{ID: id, Resource: "sw", Threshold: 0}
	x := &flow.Rule{ID: "x", Resource: "sw", Threshold: 1e9}
	y := &flow.Rule{ID: "y", Resource: "sw", Threshold: 1e9, StatIntervalInMs: 2000}
	z := &flow.Rule{ID: "z", Resource: "sw", Threshold: 2e9, StatIntervalInMs: 3000}
	switch variant % 5 {
	case 0:
		return []*flow.Rule{block}
	case 1:
		return []*flow.Rule{x, block, y}
	case 2:
		return []*flow.Rule{block, x, z}
	case 3:
		return []*flow.Rule{y, x, block}
	}
	return []*flow.Rule{z, block}
}

func isoSw(id string, variant int) []*isolation.Rule {
	block := &isolation.Rule{ID: id, Resource: "sw", Threshold: 1}
	x := &isolation.Rule{ID: "x", Resource: "sw", Threshold: 1 << 30}
	y := &isolation.Rule{ID: "y", Resource: "sw", Threshold: 1<<30 + 1}
	switch variant % 4 {
	case 0:
		return []*isolation.Rule{block}
	case 1:
		return []*isolation.Rule{x, block, y}
	case 2:
		return []*isolation.Rule{block, y}
	}
	return []*isolation.Rule{y, x, block}
}

func hotBlock(id, res string) *hotspot.Rule {
	return &hotspot.Rule{ID: id, Resource: res, MetricType: hotspot.QPS, ControlBehavior: hotspot.Reject, ParamIndex: 0, Threshold: 0, DurationInSec: 1, SpecificItems: map[interface{}]int64{}}
}

func hotSw(id string, variant int) []*hotspot.Rule {
	block := hotBlock(id, "sw")
	x := &hotspot.Rule{ID: "x", Resource: "sw", MetricType: hotspot.QPS, ControlBehavior: hotspot.Reject, ParamIndex: 0, Threshold: 1e9, DurationInSec: 1, SpecificItems: map[interface{}]int64{}}
	y := &hotspot.Rule{ID: "y", Resource: "sw", MetricType: hotspot.Concurrency, ParamIndex: 0, Threshold: 1e9, SpecificItems: map[interface{}]int64{}}
	switch variant % 4 {
	case 0:
		return []*hotspot.Rule{block}
	case 1:
		return []*hotspot.Rule{x, block, y}
	case 2:
		return []*hotspot.Rule{block, y, x}
	}
	return []*hotspot.Rule{y, x, block}
}

func TestRaceAndAtomicSwitch(t *testing.T) {
	hx.Check(t, hx.N{Quick: 60, Thorough: 300}, func(t *rapid.T, c *hx.Case) {
		// real clock: the race build is about real schedules, not virtual time
		util.SetClock(util.NewRealClock())
		defer util.SetClock(hx.C)
		flow.ClearRules()
		isolation.ClearRules()
		hotspot.ClearRules()
		cb.ClearRules()
		system.ClearRules()
		stat.ResetResourceNodeMap()
		// half of the cases run under a legal non-default process-wide statistic configuration (set before any traffic, as an
		// application does at start-up; the nodes created by this case's traffic have that geometry)
		sc := hx.DefaultStat
		if k := rapid.IntRange(0, 2*len(hx.StatCfgs)).Draw(t, "statConfig"); k < len(hx.StatCfgs) {
			sc = hx.StatCfgs[k]
		}
		ent := config.NewDefaultConfig()
		ent.Sentinel.Stat.MetricStatisticSampleCount, ent.Sentinel.Stat.MetricStatisticIntervalMs = sc.MS, sc.MI
		ent.Sentinel.Stat.GlobalStatisticSampleCountTotal, ent.Sentinel.Stat.GlobalStatisticIntervalMsTotal = sc.GS, sc.GI
		config.ResetGlobalConfig(ent)
		defer config.ResetGlobalConfig(config.NewDefaultConfig())
		c.ClassIf(sc != hx.DefaultStat, "non-default-statistic-configuration")
		sws := switchers()
		sw := sws[rapid.IntRange(0, len(sws)-1).Draw(t, "switchModule")]
		if err := sw.loadAll("1", 2); err != nil {
			t.Fatalf("initial load: %v", err)
		}
		nTraffic := rapid.IntRange(2, 6).Draw(t, "traffic")
		nChurn := rapid.IntRange(1, 4).Draw(t, "churn")
		nRead := rapid.IntRange(1, 3).Draw(t, "readers")
		iters := rapid.IntRange(50, 400).Draw(t, "iters")
		perturb := rapid.IntRange(0, 3).Draw(t, "perturb")
		c.Op("switch=%s traffic=%d churn=%d readers=%d iters=%d perturb=%d", sw.name, nTraffic, nChurn, nRead, iters, perturb)
		var inFlight, swaps, swapsDuringFlight, swRequests int64
		var stop int32
		fail := make(chan string, 64)
		report := func(format string, a ...any) {
			select {
			case fail <- fmt.Sprintf(format, a...):
			default:
			}
		}
		guard := func(role string) {
			if r := recover(); r != nil {
				report("%s goroutine panicked: %v", role, r)
			}
		}
		var wg, wgT sync.WaitGroup
		pause := func(i int) {
			switch perturb {
			case 1:
				if i%3 == 0 {
					runtime.Gosched()
				}
			case 2:
				if i%7 == 0 {
					time.Sleep(time.Duration(i%50) * time.Microsecond)
				}
			case 3:
				runtime.Gosched()
			}
		}
		for g := 0; g < nTraffic; g++ {
			g := g
			wgT.Add(1)
			go func() {
				defer wgT.Done()
				defer guard("traffic")
				bizErr := errors.New("biz")
				for i := 0; i < iters; i++ {
					pause(i + g)
					switch (i + g) % 4 {
					case 0: // the switched resource: must always be blocked, by list 1 or list 2
						atomic.AddInt64(&inFlight, 1)
						e, b := sentinel.Entry("sw", sw.opts()...)
						atomic.AddInt64(&inFlight, -1)
						atomic.AddInt64(&swRequests, 1)
						if b == nil {
							e.Exit()
							report("a request on the switched resource was admitted: it saw neither of the two block-everything lists (module %s)", sw.name)
						} else if id := sw.ruleID(b.TriggeredRule()); b.BlockType() != sw.btype || (id != "1" && id != "2") {
							report("request on the switched resource blocked by %v rule %q (module %s)", b.BlockType(), id, sw.name)
						}
					case 1: // the constant resource: always blocked by its own rule
						e, b := sentinel.Entry("kb", sw.opts()...)
						if b == nil {
							e.Exit()
							report("a request on resource kb was admitted while another resource's rules were being updated (module %s)", sw.name)
						} else if id := sw.ruleID(b.TriggeredRule()); id != "kb" && !(sw.global && (id == "1" || id == "2")) {
							report("request on kb blocked by rule %q", id)
						}
					default: // ordinary traffic with args, attachments, errors, inbound/outbound
						opts := []sentinel.EntryOption{sentinel.WithArgs(i%3, "x", (i*7+g)%23), sentinel.WithAttachment("k", i%2)} // (third argument: many distinct values for the small-capacity rule on t1)
						if i%2 == 0 {
							opts = append(opts, sentinel.WithTrafficType(base.Inbound))
						}
						resName := fmt.Sprint("t", (i+g)%3)
						if i%7 == 3 { // a resource name nobody has used yet: its statistic node is created while readers list the nodes
							resName = fmt.Sprint("fresh-", atomic.AddInt64(&freshN, 1))
						}
						e, b := sentinel.Entry(resName, opts...)
						if b == nil {
							if i%5 == 0 {
								sentinel.TraceError(e, bizErr)
							}
							if i%6 == 0 {
								e.Exit(base.WithError(bizErr))
							} else {
								e.Exit()
							}
							e.Exit()
						}
					}
				}
			}()
		}
		for g := 0; g < nChurn; g++ {
			g := g
			wg.Add(1)
			go func() {
				defer wg.Done()
				defer guard("churn")
				for i := 0; atomic.LoadInt32(&stop) == 0; i++ {
					pause(i)
					id := fmt.Sprint(1 + (i+g)%2)
					before := atomic.LoadInt64(&inFlight)
					var err error
					if g == 0 {
						if i%3 == 0 {
							err = sw.loadAll(id, i%7)
						} else {
							err = sw.loadSwVariant(id, i)
						}
						atomic.AddInt64(&swaps, 1)
						if before > 0 || atomic.LoadInt64(&inFlight) > 0 {
							atomic.AddInt64(&swapsDuringFlight, 1)
						}
					} else { // churn in the other modules
						switch (i + g) % 10 {
						// per-resource loads on a resource of its own, cycling through a valid list, a list of invalid rules only,
						// an empty list and nil (the rarely taken paths of the per-resource loaders)
						case 6:
							lists := [][]*hotspot.Rule{{{ID: id, Resource: "t3", MetricType: hotspot.QPS, ParamIndex: 0, Threshold: 1000, DurationInSec: 1}}, {{ID: id, Resource: "t3", MetricType: hotspot.QPS, ParamIndex: 0, Threshold: -1, DurationInSec: 1}}, {}, nil}
							_, err = hotspot.LoadRulesOfResource("t3", lists[(i/10)%4])
						case 7:
							lists := [][]*flow.Rule{{{ID: id, Resource: "t3", Threshold: 1000}}, {{ID: id, Resource: "t3", Threshold: -1}}, {}, nil}
							_, err = flow.LoadRulesOfResource("t3", lists[(i/10)%4])
						case 8:
							lists := [][]*isolation.Rule{{{ID: id, Resource: "t3", MetricType: isolation.Concurrency, Threshold: 1000}}, {{ID: id, Resource: "t3", MetricType: isolation.Concurrency, Threshold: 0}}, {}, nil}
							_, err = isolation.LoadRulesOfResource("t3", lists[(i/10)%4])
						case 9:
							lists := [][]*cb.Rule{{{Id: id, Resource: "t3", Strategy: cb.ErrorCount, RetryTimeoutMs: 5, MinRequestAmount: 1, StatIntervalMs: 1000, Threshold: 1000}}, {{Id: id, Resource: "t3", Strategy: cb.ErrorCount, RetryTimeoutMs: 5, StatIntervalMs: 0, Threshold: -1}}, {}, nil}
							_, err = cb.LoadRulesOfResource("t3", lists[(i/10)%4])
						case 0:
							if sw.name != "hotspot" { // a hotspot rule whose parameter cache is far smaller than the number of live values: it evicts all the time
								if _, e2 := hotspot.LoadRulesOfResource("t1", []*hotspot.Rule{{ID: id, Resource: "t1", MetricType: hotspot.QPS, ParamIndex: 2, Threshold: int64(1000000 + i%2), DurationInSec: 1, ParamsMaxCapacity: 2, SpecificItems: map[interface{}]int64{}},
									{ID: id + "c", Resource: "t1", MetricType: hotspot.Concurrency, ParamIndex: 2, Threshold: int64(1000000 + i%2), ParamsMaxCapacity: 2, SpecificItems: map[interface{}]int64{}}}); e2 != nil {
									report("rule load returned %v", e2)
								}
							}
							_, err = cb.LoadRules([]*cb.Rule{{Id: id, Resource: "t0", Strategy: cb.ErrorCount, RetryTimeoutMs: 5, MinRequestAmount: 1, StatIntervalMs: 1000, Threshold: float64(1 + i%3)}})
						case 1:
							_, err = cb.LoadRulesOfResource("t1", []*cb.Rule{{Id: id, Resource: "t1", Strategy: cb.ErrorRatio, RetryTimeoutMs: 5, MinRequestAmount: 2, StatIntervalMs: 1000, Threshold: 0.5}})
						case 2:
							if sw.name == "system" {
								break
							}
							_, err = system.LoadRules([]*system.Rule{{ID: id, MetricType: system.Concurrency, TriggerCount: float64(1000 + i%2)}})
						case 3:
							err = cb.ClearRulesOfResource("t1")
						case 4:
							if sw.name != "flow" {
								_, err = flow.LoadRules([]*flow.Rule{{ID: id, Resource: "t2", Threshold: float64(10 + i%2), ControlBehavior: flow.Throttling, MaxQueueingTimeMs: 0},
									{ID: "assoc", Resource: "t0", RelationStrategy: flow.AssociatedResource, RefResource: "t1", Threshold: 1e9 + float64(i%5)}})
							}
						case 5:
							res := fmt.Sprint("oc", atomic.AddInt64(&outlierN, 1)%4)
							_, err = outlier.LoadRuleOfResource(res, &outlier.Rule{Rule: &cb.Rule{Resource: res, Strategy: cb.ErrorCount, RetryTimeoutMs: 10, StatIntervalMs: 1000, Threshold: float64(1 + i%2)}, MaxEjectionPercent: 0.5})
						}
					}
					if err != nil {
						report("rule load returned %v", err)
					}
				}
			}()
		}
		for g := 0; g < nRead; g++ {
			g := g
			wg.Add(1)
			go func() {
				defer wg.Done()
				defer guard("reader")
				for i := 0; atomic.LoadInt32(&stop) == 0; i++ {
					pause(i)
					switch (i + g) % 8 {
					case 0:
						_ = flow.GetRules()
						_ = flow.GetRulesOfResource("sw")
					case 1:
						_ = isolation.GetRules()
						_ = hotspot.GetRulesOfResource("sw")
					case 2:
						_ = cb.GetRules()
						_ = cb.GetRulesOfResource("t0")
					case 3:
						_ = system.GetRules()
					case 4:
						if n := stat.GetResourceNode("t0"); n != nil {
							_ = n.GetQPS(base.MetricEventPass)
							_ = n.AvgRT()
							_ = n.MinRT()
							_ = n.CurrentConcurrency()
							_ = n.MetricsOnCondition(func(uint64) bool { return true })
						}
					case 5:
						for _, n := range stat.ResourceNodeList() {
							_ = n.GetSum(base.MetricEventBlock)
						}
					case 6:
						_ = stat.InboundNode().GetPreviousQPS(base.MetricEventPass)
						_ = stat.InboundNode().MaxConcurrency()
					case 7:
						_ = outlier.GetRules()
						_ = hotspot.GetRules()
					}
				}
			}()
		}
		// traffic goroutines end on their own; then stop churn and readers
		waitOrDie := func(w *sync.WaitGroup, what string) {
			done := make(chan struct{})
			go func() {
				w.Wait()
				close(done)
			}()
			select {
			case <-done:
			case <-time.After(60 * time.Second):
				// A deadlock, as opposed to a slow machine: the same goroutines are parked on the same lock acquisitions inside
				// the library in two dumps taken 30 s apart, and no request or rule load completed in between.
				parked := func() (map[string]string, string) {
					buf := make([]byte, 4<<20)
					dump := string(buf[:runtime.Stack(buf, true)])
					out := map[string]string{}
					for _, g := range strings.Split(dump, "\n\n") {
						lines := strings.Split(g, "\n")
						if (strings.Contains(lines[0], "[sync.") || strings.Contains(lines[0], "[semacquire")) && strings.Contains(g, "sentinel-golang/core/") {
							out[strings.SplitN(lines[0], " [", 2)[0]] = strings.Join(lines[1:minInt(len(lines), 9)], " | ") // the frames, not the header (it grows a wait time)
						}
					}
					return out, dump
				}
				p1, _ := parked()
				before := atomic.LoadInt64(&swaps) + atomic.LoadInt64(&swRequests)
				time.Sleep(30 * time.Second)
				p2, dump := parked()
				still := ""
				for id, frames := range p1 {
					if p2[id] == frames {
						still = frames
					}
				}
				if still != "" && atomic.LoadInt64(&swaps)+atomic.LoadInt64(&swRequests) == before {
					fmt.Printf("DEADLOCK: %s did not finish within 90 s; no request or rule load completed during the last 30 s and %d goroutine(s) stayed parked on the same lock acquisition inside the library, e.g. %s\n", what, len(p2), still)
					fmt.Printf("all goroutines:\n%s\n", dump)
					os.Exit(4)
				}
				fmt.Printf("INCONCLUSIVE: C15 watchdog expired after 90 s waiting for %s, but the goroutines are not stuck on library locks (slow machine?); goroutines:\n%s\n", what, dump)
				os.Exit(3)
			}
		}
		waitOrDie(&wgT, "traffic")
		atomic.StoreInt32(&stop, 1)
		waitOrDie(&wg, "churn and readers")
		atomic.StoreInt32(&stop, 1)
		select {
		case m := <-fail:
			t.Fatalf("%s", m)
		default:
		}
		// Quiescence: every load has returned. Each module's two getters now describe the same rules: the whole-set getter
		// reports exactly what the per-resource getter reports for the resources that carry rules.
		{
			resources := []string{"sw", "kb", "t0", "t1", "t2", "t3"}
			cmp := func(module string, all []string, per func(res string) []string) {
				var byRes []string
				for _, r := range resources {
					byRes = append(byRes, per(r)...)
				}
				var known []string
				for _, x := range all {
					for _, r := range resources {
						if strings.HasPrefix(x, r+"|") {
							known = append(known, x)
						}
					}
				}
				sort.Strings(byRes)
				sort.Strings(known)
				if fmt.Sprint(byRes) != fmt.Sprint(known) {
					t.Fatalf("%s rules at quiescence (every load has returned): GetRules reports %v for the resources of this case, GetRulesOfResource reports %v", module, known, byRes)
				}
			}
			var all []string
			for _, r := range flow.GetRules() {
				all = append(all, fmt.Sprintf("%s|%s|%v|%d", r.Resource, r.ID, r.Threshold, r.StatIntervalInMs))
			}
			cmp("flow", all, func(res string) (out []string) {
				for _, r := range flow.GetRulesOfResource(res) {
					out = append(out, fmt.Sprintf("%s|%s|%v|%d", r.Resource, r.ID, r.Threshold, r.StatIntervalInMs))
				}
				return
			})
			all = nil
			for _, r := range cb.GetRules() {
				all = append(all, fmt.Sprintf("%s|%s|%v|%v", r.Resource, r.Id, r.Strategy, r.Threshold))
			}
			cmp("circuit breaker", all, func(res string) (out []string) {
				for _, r := range cb.GetRulesOfResource(res) {
					out = append(out, fmt.Sprintf("%s|%s|%v|%v", r.Resource, r.Id, r.Strategy, r.Threshold))
				}
				return
			})
			all = nil
			for _, r := range isolation.GetRules() {
				all = append(all, fmt.Sprintf("%s|%s|%v", r.Resource, r.ID, r.Threshold))
			}
			cmp("isolation", all, func(res string) (out []string) {
				for _, r := range isolation.GetRulesOfResource(res) {
					out = append(out, fmt.Sprintf("%s|%s|%v", r.Resource, r.ID, r.Threshold))
				}
				return
			})
			all = nil
			for _, r := range hotspot.GetRules() {
				all = append(all, fmt.Sprintf("%s|%s|%v|%v", r.Resource, r.ID, r.MetricType, r.Threshold))
			}
			cmp("hotspot", all, func(res string) (out []string) {
				for _, r := range hotspot.GetRulesOfResource(res) {
					out = append(out, fmt.Sprintf("%s|%s|%v|%v", r.Resource, r.ID, r.MetricType, r.Threshold))
				}
				return
			})
		}
		// First touches of brand-new resources, released together: the first rule load for the resource races with its first
		// requests. Once everything has returned, the loaded rule (2 per second) is the one in force and it must see the
		// requests of the resource: of six further requests within the same second at most two are admitted.
		for b := 0; b < 24; b++ {
			res := fmt.Sprint("first-", atomic.AddInt64(&freshN, 1))
			k := 2 + b%4
			var start, done sync.WaitGroup
			start.Add(1)
			for j := 0; j < k; j++ {
				j := j
				done.Add(1)
				go func() {
					defer done.Done()
					defer guard("first touch")
					start.Wait()
					if j == b%k {
						if _, err := flow.LoadRulesOfResource(res, []*flow.Rule{{ID: "first", Resource: res, Threshold: 2}}); err != nil {
							report("rule load returned %v", err)
						}
					} else if e, blk := sentinel.Entry(res); blk == nil {
						e.Exit()
					}
				}()
			}
			// the first circuit-breaking and isolation rules of the same resource are loaded meanwhile, while two readers keep
			// asking the whole-set getters: once everything has returned, the getters report the loaded rules
			for j := 0; j < 4; j++ {
				j := j
				done.Add(1)
				go func() {
					defer done.Done()
					defer guard("getter freshness")
					start.Wait()
					switch j {
					case 0:
						if _, err := cb.LoadRulesOfResource(res, []*cb.Rule{{Id: "first", Resource: res, Strategy: cb.ErrorCount, RetryTimeoutMs: 5, MinRequestAmount: 1, StatIntervalMs: 1000, Threshold: 1e9}}); err != nil {
							report("rule load returned %v", err)
						}
					case 1:
						if _, err := isolation.LoadRulesOfResource(res, []*isolation.Rule{{ID: "first", Resource: res, MetricType: isolation.Concurrency, Threshold: 1 << 30}}); err != nil {
							report("rule load returned %v", err)
						}
					default:
						for i := 0; i < 20; i++ {
							_ = cb.GetRules()
							_ = isolation.GetRules()
							_ = flow.GetRules()
							runtime.Gosched()
						}
					}
				}()
			}
			t0 := time.Now()
			start.Done()
			waitOrDie(&done, "first touches of a new resource")
			fresh := map[string]bool{}
			for _, r := range cb.GetRules() {
				if r.Resource == res {
					fresh["circuit breaker"] = true
				}
			}
			for _, r := range isolation.GetRules() {
				if r.Resource == res {
					fresh["isolation"] = true
				}
			}
			for _, r := range flow.GetRules() {
				if r.Resource == res {
					fresh["flow"] = true
				}
			}
			for _, m := range []string{"circuit breaker", "isolation", "flow"} {
				if !fresh[m] {
					t.Fatalf("new resource %s: its first %s rule was loaded (the load has returned) while readers were calling GetRules; GetRules now does not report it", res, m)
				}
			}
			admitted := 0
			for j := 0; j < 6; j++ {
				if e, blk := sentinel.Entry(res); blk == nil {
					admitted++
					e.Exit()
				}
			}
			sameWindow := true // a single-sample default metric tumbles: the requests must then lie in one aligned window
			if sc.MS == 1 {
				sameWindow = uint64(t0.UnixMilli())/uint64(sc.MI) == uint64(time.Now().UnixMilli())/uint64(sc.MI)
			}
			if el := time.Since(t0); el < 400*time.Millisecond && sameWindow && admitted > 2 {
				t.Fatalf("new resource %s: its first rule load (2 per second) raced with its first %d request(s); after all of them returned, %d of 6 requests made within %v were admitted: they were decided without the statistics the loaded rule reads", res, k-1, admitted, el)
			}
			if n := stat.GetResourceNode(res); n == nil || n.CurrentConcurrency() != 0 {
				t.Fatalf("new resource %s: after its first requests raced and all exited, the resource node is missing or reports entries in flight", res)
			}
			c.Count("first_touch_bursts", 1)
		}
		select {
		case m := <-fail:
			t.Fatalf("%s", m)
		default:
		}
		c.Count("rule_swaps", atomic.LoadInt64(&swaps))
		c.Count("rule_swaps_while_request_in_flight", atomic.LoadInt64(&swapsDuringFlight))
		c.Count("requests_on_switched_resource", atomic.LoadInt64(&swRequests))
		c.Class(sw.name)
		if atomic.LoadInt64(&swapsDuringFlight) > 0 {
			c.NonTrivial()
			c.Class("swap-while-request-in-flight")
		}
	})
}

func minInt(a, b int) int {
	if a < b {
		return a
	}
	return b
}
